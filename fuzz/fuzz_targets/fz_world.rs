#![no_main]
//! bytes -> choice stream -> generated case (registration sequence / history) -> real code ->
//! the same oracles as the proptest-driven checks. VERIF_PROP selects the property whose
//! single-threaded sub-checks may abort the target.
use libfuzzer_sys::fuzz_target;
use std::sync::Once;

use vcheck::driver::Known;
use vcheck::registry::{all_subs_for, fuzzable};

static INIT: Once = Once::new();

fn stream(data: &[u8]) -> Vec<u16> {
    data.chunks(2)
        .map(|c| (c[0] as u16) << 8 | *c.get(1).unwrap_or(&0) as u16)
        .collect()
}

fuzz_target!(|data: &[u8]| {
    INIT.call_once(|| {
        // libFuzzer's hook aborts on every panic; the oracles catch expected panics themselves
        std::panic::set_hook(Box::new(|_| {}));
    });
    let prop = std::env::var("VERIF_PROP").unwrap_or_else(|_| "C09".into());
    let s = stream(data);
    for sub in all_subs_for(&prop) {
        if !fuzzable(sub.p.dname()) {
            continue;
        }
        if let Some(msg) = sub.p.dfuzz_one(&s, Known::load_cached()) {
            eprintln!("VIOLATION property={} check={} : {}", prop, sub.p.dname(), msg);
            std::process::abort();
        }
    }
});
