#!/bin/bash
# Offline setup after a fresh restore: pre-build the harness so that quick checks are warm.
set -u
cd "$(dirname "$0")"
export CARGO_NET_OFFLINE=true
mkdir -p target evidence replays
( cd harness && cargo build --offline ) || exit 1
( cd gen06 && cargo build --offline ) || exit 1
exit 0
