#!/bin/bash
# Offline setup after a fresh restore: pre-build the harness so that quick checks are warm.
set -u
cd "$(dirname "$0")"
export CARGO_NET_OFFLINE=true
mkdir -p target evidence replays
( cd harness && cargo build --offline ) || exit 1
( cd gen06 && cargo build --offline ) || exit 1
( cd harness && CARGO_TARGET_DIR="$(pwd)/../target/nopar" cargo build --offline --no-default-features --bin vnopar ) || exit 1
# coverage-guided targets (thorough tiers); not fatal if the nightly fuzz build is unavailable
( cd harness && cargo +nightly fuzz build --fuzz-dir "$(pwd)/../fuzz" ) >/dev/null 2>&1 || echo "note: fuzz targets not built (thorough tiers fall back to proptest only)"
exit 0
