//! C15: the asynchronous dispatcher — completion is observable and never overtaken.

use std::panic::{catch_unwind, AssertUnwindSafe};
use std::sync::atomic::{AtomicBool, Ordering::SeqCst};
use std::sync::Arc;
use std::time::{Duration, Instant};

use serde::{Deserialize, Serialize};
use serde_json::json;

use crate::build::{build_builder, build_plan, panic_msg, pool, BuildOpts};
use crate::driver::{Fail, Prop, Stats};
use crate::exec::{
    check_barrier_order, check_dep_order, check_no_overlap, close_multi_windows, expected_runs,
    fresh_world, windows,
};
use crate::hsys::*;
use crate::plan::{compile, gen_plan, simplify_plan, Flat, GenCfg, Plan, Src};
use crate::res::{self, Res};

#[derive(Clone, Debug, Serialize, Deserialize, PartialEq)]
pub enum AOp {
    Dispatch {
        /// selector of the system held inside `run` (None: nobody is held)
        hold: Option<u16>,
        /// running() polls while the system is held
        polls: u8,
        /// the holder is released this many ms after the polls (0: at once)
        delay_ms: u8,
        /// occupy every pool worker with a blocker before dispatching (the job cannot even start)
        busy_pool: bool,
    },
    Running,
    Wait,
    WaitWithoutTl,
    World,
    WorldMut,
    Setup,
    /// the deprecated aliases `res()` / `mut_res()`
    Res,
    MutRes,
}

#[derive(Clone, Debug, Serialize, Deserialize)]
pub struct C15Case {
    pub plan: Plan,
    pub ops: Vec<AOp>,
    pub threads: u8,
    /// after the history: one more dispatch with a held system, and the dispatcher is dropped while
    /// that dispatch is in flight (other lanes' dispatchers are at work in the same process)
    #[serde(default)]
    pub drop_in_flight: bool,
}

pub struct C15 {
    pub cfg: GenCfg,
    pub property: &'static str,
    pub name: &'static str,
}

struct Marks {
    /// (clock at call, clock at return) of every wait()
    waits: Vec<(u64, u64)>,
    issued: u32,
}

fn all_done(ctx: &Ctx, flat: &Flat, issued: u32) -> Result<(), String> {
    let active = ctx.active.load(SeqCst);
    if active != 0 {
        return Err(format!("{} system(s) are still inside run", active));
    }
    let exp = expected_runs(flat, issued, 0);
    let got = ctx.runs();
    for s in 0..flat.sys.len() {
        if flat.sys[s].is_tl {
            continue;
        }
        if got[s] != exp[s] {
            return Err(format!(
                "system {} has run {} times, {} asynchronous dispatches were issued (x inner dispatch counts = {})",
                flat.sys[s].sid(),
                got[s],
                issued,
                exp[s]
            ));
        }
    }
    Ok(())
}

impl Prop for C15 {
    type Case = C15Case;
    fn name(&self) -> &'static str {
        self.name
    }
    fn property(&self) -> &'static str {
        self.property
    }
    fn rule(&self) -> &'static str {
        "plans of 'static harness systems (batches, thread-local systems, deps, barriers) x histories (<= 12 calls) over dispatch / running / wait / wait_without_tl / world / world_mut (and their deprecated aliases res / mut_res) / setup x pool size {1,2,4,8}; per dispatch optionally one system is held inside run until the harness lets go (after k running() polls, or 0..30 ms later from a helper thread while the caller sits in a blocking accessor), or every pool worker is occupied so that the job cannot start; oracle: at the return of wait / wait_without_tl / world / world_mut / setup / a further dispatch no system is inside run and every ordinary counter equals the dispatches issued; running() is true whenever a system is known to be held or the job cannot have started, and whenever it is false everything issued has finished; the (k+1)-th run of every system begins after the k-th run of every system ended; conflicting windows never overlap and dependency / barrier order holds in the background; thread-local systems run only between the call and the return of a wait(), on the calling thread, once per wait; non-trivial = back-to-back dispatches and a held system that was polled; distinct = case hash"
    }
    fn stream_len(&self) -> usize {
        500
    }
    fn max_shrink_iters(&self) -> u32 {
        300
    }
    fn journal(&self) -> bool {
        true
    }
    fn gen(&self, src: &mut Src) -> C15Case {
        let threads = [1u8, 2, 4, 8][src.pick(4)];
        let n = 1 + src.pick(12);
        let mut ops = vec![];
        for _ in 0..n {
            let op = match src.pick(12) {
                0 | 1 | 2 | 3 | 4 => AOp::Dispatch {
                    hold: if src.chance(10, 16) {
                        Some(src.raw())
                    } else {
                        None
                    },
                    polls: src.pick(5) as u8,
                    delay_ms: [0u8, 0, 3, 10, 30][src.pick(5)],
                    busy_pool: src.chance(3, 16),
                },
                5 | 6 => AOp::Running,
                7 | 8 => AOp::Wait,
                9 => AOp::WaitWithoutTl,
                10 => match src.pick(4) {
                    0 => AOp::World,
                    1 => AOp::WorldMut,
                    2 => AOp::Res,
                    _ => AOp::MutRes,
                },
                _ => AOp::Setup,
            };
            ops.push(op);
        }
        let plan = gen_plan(src, &self.cfg);
        let drop_in_flight = src.chance(4, 16);
        C15Case {
            plan,
            ops,
            threads,
            drop_in_flight,
        }
    }

    fn check(&self, case: &C15Case, lane: usize, st: &mut Stats) -> Result<(), Fail> {
        let threads = case.threads.clamp(1, 16) as usize;
        let tp = pool(lane, threads);
        let flat = Arc::new(compile(&case.plan));
        let ctx = Ctx::new(flat.clone());
        let builder = build_builder(&case.plan, &flat, 0, &ctx, Some(tp.clone()), &BuildOpts::default())
            .map_err(|e| Fail::new(format!("builder panicked: {}", e.msg)))?;
        // shape twin: the async dispatcher must execute the same plan as build() gives (C19 side)
        let twin = build_plan(&case.plan, pool(lane, 1), &BuildOpts::default())
            .map_err(|e| Fail::keyed("build-or-identify", e))?;
        let mut ad = catch_unwind(AssertUnwindSafe(|| builder.build_async(fresh_world())))
            .map_err(|p| Fail::new(format!("build_async panicked: {}", panic_msg(&p))))?;
        let (shape, ntl) = ad.verif_shape();
        if (shape.clone(), ntl) != twin.d.verif_shape() {
            return Err(Fail::new(format!(
                "the asynchronous dispatcher executes shape {:?}, build() of the same registrations gives {:?}",
                shape,
                twin.d.verif_shape().0
            )));
        }
        let ordinary: Vec<usize> = flat
            .sys
            .iter()
            .filter(|s| !s.is_tl && !s.is_batch)
            .filter(|s| {
                // reachable in every dispatch: no enclosing batch dispatches 0 times
                flat.ancestors(s.idx)
                    .iter()
                    .all(|a| flat.sys[*a].ctl.as_ref().map(|c| c.times()).unwrap_or(1) > 0)
            })
            .filter(|s| !flat.ancestors(s.idx).iter().any(|a| flat.sys[*a].is_tl))
            .map(|s| s.idx)
            .collect();
        let caller = thread_no();
        let mut marks = Marks {
            waits: vec![],
            issued: 0,
        };
        ctx.set_phase(PHASE_RUN);
        let mut held_polled = false;
        let mut back_to_back = false;
        let mut last_was_dispatch = false;
        let mut helpers: Vec<std::thread::JoinHandle<()>> = vec![];
        let result: Result<(), Fail> = (|| {
            for (step, op) in case.ops.iter().enumerate() {
                let bad = |what: String| Fail::new(format!("step {} {:?}: {}", step, op, what));
                match op.clone() {
                    AOp::Dispatch {
                        hold,
                        polls,
                        delay_ms,
                        busy_pool,
                    } => {
                        if last_was_dispatch {
                            back_to_back = true;
                        }
                        // no stale helper may release a system that this dispatch holds
                        for h in helpers.drain(..) {
                            let _ = h.join();
                        }
                        // a further dispatch waits for the previous one
                        let held_sys = hold.and_then(|h| {
                            if ordinary.is_empty() {
                                None
                            } else {
                                Some(ordinary[(h as usize * ordinary.len()) >> 16])
                            }
                        });
                        // blockers: the job cannot start before they are released
                        let gate = Arc::new(AtomicBool::new(false));
                        let mut blockers_in = 0;
                        // blockers that gave up waiting (only under extreme starvation): then the
                        // observation below says nothing
                        let gave_up = Arc::new(std::sync::atomic::AtomicUsize::new(0));
                        if busy_pool && marks.issued as usize == all_finished_count(&ctx, &flat, marks.issued) {
                            let arrived = Arc::new(std::sync::atomic::AtomicUsize::new(0));
                            for _ in 0..threads {
                                let (g, a, gu) = (gate.clone(), arrived.clone(), gave_up.clone());
                                tp.spawn(move || {
                                    a.fetch_add(1, SeqCst);
                                    let t0 = Instant::now();
                                    while !g.load(SeqCst) {
                                        if t0.elapsed() > Duration::from_secs(20) {
                                            gu.fetch_add(1, SeqCst);
                                            break;
                                        }
                                        std::thread::sleep(Duration::from_micros(100));
                                    }
                                });
                            }
                            let t0 = Instant::now();
                            while arrived.load(SeqCst) < threads && t0.elapsed() < Duration::from_secs(3) {
                                std::thread::sleep(Duration::from_micros(100));
                            }
                            blockers_in = arrived.load(SeqCst);
                        }
                        if let Some(h) = held_sys {
                            // hold exactly the first run that belongs to this dispatch
                            let before = expected_runs(&flat, marks.issued, 0)[h];
                            ctx.hold[h].store(before + 1, SeqCst);
                        }
                        let r = catch_unwind(AssertUnwindSafe(|| ad.dispatch()));
                        if let Err(p) = r {
                            gate.store(true, SeqCst);
                            return Err(bad(format!("dispatch panicked: {}", panic_msg(&p))));
                        }
                        // dispatch() had to wait for everything issued before
                        all_done_before(&ctx, &flat, marks.issued).map_err(|e| {
                            gate.store(true, SeqCst);
                            bad(format!("a further dispatch returned although the previous one had not completed: {}", e))
                        })?;
                        marks.issued += 1;
                        if blockers_in == threads && threads > 0 && busy_pool {
                            // nothing of this dispatch can have started: running() must say true
                            for _ in 0..polls.max(1) {
                                let r = ad.running();
                                if !r && gave_up.load(SeqCst) == 0 {
                                    gate.store(true, SeqCst);
                                    return Err(bad("running() returned false although the dispatch just issued cannot have started (every pool worker is occupied)".into()));
                                }
                            }
                            st.class("polled_while_pool_busy");
                        }
                        gate.store(true, SeqCst);
                        if let Some(h) = held_sys {
                            // wait until the system is really inside run
                            let t0 = Instant::now();
                            while !ctx.holding[h].load(SeqCst) && t0.elapsed() < Duration::from_secs(4) {
                                std::thread::sleep(Duration::from_micros(100));
                            }
                            if ctx.holding[h].load(SeqCst) {
                                for _ in 0..polls {
                                    if !ad.running() {
                                        ctx.hold[h].store(0, SeqCst);
                                        return Err(bad(format!(
                                            "running() returned false while system {} is inside run",
                                            flat.sys[h].sid()
                                        )));
                                    }
                                    held_polled = true;
                                }
                            } else {
                                st.class("held_system_not_reached");
                            }
                            if delay_ms == 0 {
                                ctx.hold[h].store(0, SeqCst);
                            } else {
                                let c = ctx.clone();
                                helpers.push(std::thread::spawn(move || {
                                    std::thread::sleep(Duration::from_millis(delay_ms as u64));
                                    c.hold[h].store(0, SeqCst);
                                }));
                                st.class("released_from_helper_thread");
                            }
                        }
                    }
                    AOp::Running => {
                        let r = ad.running();
                        if !r {
                            all_done(&ctx, &flat, marks.issued)
                                .map_err(|e| bad(format!("running() returned false but {}", e)))?;
                        }
                    }
                    AOp::Wait => {
                        let t0 = ctx.clock.fetch_add(1, SeqCst);
                        let r = catch_unwind(AssertUnwindSafe(|| ad.wait()));
                        let t1 = ctx.clock.fetch_add(1, SeqCst);
                        if let Err(p) = r {
                            return Err(bad(format!("wait panicked: {}", panic_msg(&p))));
                        }
                        marks.waits.push((t0, t1));
                        all_done(&ctx, &flat, marks.issued)
                            .map_err(|e| bad(format!("wait returned but {}", e)))?;
                    }
                    AOp::WaitWithoutTl => {
                        ad.wait_without_tl();
                        all_done(&ctx, &flat, marks.issued)
                            .map_err(|e| bad(format!("wait_without_tl returned but {}", e)))?;
                    }
                    AOp::World => {
                        let v = res::peek(ad.world(), Res::new(0, 0));
                        all_done(&ctx, &flat, marks.issued)
                            .map_err(|e| bad(format!("world() returned but {}", e)))?;
                        if v.is_none() {
                            return Err(bad("a resource vanished from the world".into()));
                        }
                    }
                    AOp::WorldMut => {
                        let w = ad.world_mut();
                        let present = w.has_value_raw(res::rid(Res::new(1, 0)));
                        all_done(&ctx, &flat, marks.issued)
                            .map_err(|e| bad(format!("world_mut() returned but {}", e)))?;
                        if !present {
                            return Err(bad("a resource vanished from the world".into()));
                        }
                    }
                    AOp::Res => {
                        #[allow(deprecated)]
                        let v = res::peek(ad.res(), Res::new(0, 0));
                        all_done(&ctx, &flat, marks.issued)
                            .map_err(|e| bad(format!("res() returned but {}", e)))?;
                        if v.is_none() {
                            return Err(bad("a resource vanished from the world".into()));
                        }
                    }
                    AOp::MutRes => {
                        #[allow(deprecated)]
                        let present = ad.mut_res().has_value_raw(res::rid(Res::new(1, 0)));
                        all_done(&ctx, &flat, marks.issued)
                            .map_err(|e| bad(format!("mut_res() returned but {}", e)))?;
                        if !present {
                            return Err(bad("a resource vanished from the world".into()));
                        }
                    }
                    AOp::Setup => {
                        // the phase stays RUN: setup first waits for background systems
                        let r = catch_unwind(AssertUnwindSafe(|| ad.setup()));
                        if let Err(p) = r {
                            return Err(bad(format!("setup panicked: {}", panic_msg(&p))));
                        }
                        all_done(&ctx, &flat, marks.issued)
                            .map_err(|e| bad(format!("setup returned but {}", e)))?;
                    }
                }
                last_was_dispatch = matches!(op, AOp::Dispatch { .. });
            }
            Ok(())
        })();
        // let everything finish whatever happened
        for h in ctx.hold.iter() {
            h.store(0, SeqCst);
        }
        for h in helpers {
            let _ = h.join();
        }
        let t0 = ctx.clock.fetch_add(1, SeqCst);
        let fin = catch_unwind(AssertUnwindSafe(|| ad.wait()));
        let t1 = ctx.clock.fetch_add(1, SeqCst);
        ctx.set_phase(PHASE_BUILD);
        result?;
        if let Err(p) = fin {
            return Err(Fail::new(format!("final wait panicked: {}", panic_msg(&p))));
        }
        marks.waits.push((t0, t1));
        all_done(&ctx, &flat, marks.issued)
            .map_err(|e| Fail::new(format!("after the final wait: {}", e)))?;
        // history oracles
        let log = ctx.take_log();
        let mut wins = windows(&flat, &log);
        close_multi_windows(&flat, &mut wins);
        check_no_overlap(&flat, &wins)?;
        check_dep_order(&flat, &wins)?;
        check_barrier_order(&flat, &wins)?;
        // never overtaken: dispatch k+1 starts after dispatch k ended (top-level ordinary systems)
        let top: Vec<usize> = flat.builders[0].members.clone();
        for &a in &top {
            for &b in &top {
                for k in 0..wins[a].len().saturating_sub(1) {
                    if let (Some(next_a), Some(cur_b)) = (wins[a].get(k + 1), wins[b].get(k)) {
                        if !(cur_b.end < next_a.begin) {
                            return Err(Fail::new(format!(
                                "dispatch {} started system {} at t={} before dispatch {} had finished system {} (window [{}..{}])",
                                k + 1, flat.sys[a].sid(), next_a.begin, k, flat.sys[b].sid(), cur_b.begin, cur_b.end
                            )));
                        }
                    }
                }
            }
        }
        // thread-local systems: only inside wait(), on the calling thread, once per wait
        for &t in &flat.builders[0].tls {
            if wins[t].len() != marks.waits.len() {
                return Err(Fail::new(format!(
                    "thread-local system {} ran {} times, wait() was called {} times",
                    flat.sys[t].sid(),
                    wins[t].len(),
                    marks.waits.len()
                )));
            }
            for (w, (t0, t1)) in wins[t].iter().zip(marks.waits.iter()) {
                if w.thread != caller || w.worker >= 0 {
                    return Err(Fail::new(format!(
                        "thread-local system {} ran on thread {} (worker {}), wait() was called on thread {}",
                        flat.sys[t].sid(),
                        w.thread,
                        w.worker,
                        caller
                    )));
                }
                if !(w.begin > *t0 && w.end < *t1) {
                    return Err(Fail::new(format!(
                        "thread-local system {} ran in [{}..{}], outside the wait() call [{}..{}]",
                        flat.sys[t].sid(),
                        w.begin,
                        w.end,
                        t0,
                        t1
                    )));
                }
            }
        }
        st.class_n("dispatches", marks.issued as u64);
        if held_polled {
            st.class("held_system_polled");
        }
        if back_to_back {
            st.class("back_to_back_dispatches");
        }
        if held_polled && back_to_back {
            st.nontrivial(case, || json!({"dispatches": marks.issued, "waits": marks.waits.len()}));
        }
        if case.drop_in_flight && !ordinary.is_empty() {
            // abandon the dispatcher in mid-flight: nothing may go wrong here or, above all, in the
            // dispatchers that other lanes are driving at this moment
            let h = ordinary[0];
            let before = expected_runs(&flat, marks.issued, 0)[h];
            ctx.set_phase(PHASE_RUN);
            ctx.hold[h].store(before + 1, SeqCst);
            let r = catch_unwind(AssertUnwindSafe(|| ad.dispatch()));
            let t0 = Instant::now();
            while r.is_ok() && !ctx.holding[h].load(SeqCst) && t0.elapsed() < Duration::from_secs(2) {
                std::thread::sleep(Duration::from_micros(100));
            }
            drop(ad);
            ctx.hold[h].store(0, SeqCst);
            // let the abandoned job run out before the lane's pool is used again
            let t0 = Instant::now();
            while ctx.active.load(SeqCst) != 0 && t0.elapsed() < Duration::from_secs(2) {
                std::thread::sleep(Duration::from_micros(100));
            }
            ctx.set_phase(PHASE_BUILD);
            st.class("dispatcher_dropped_in_flight");
            if let Err(p) = r {
                return Err(Fail::new(format!("dispatch panicked: {}", panic_msg(&p))));
            }
        }
        Ok(())
    }

    fn simplify(&self, case: &C15Case) -> Vec<C15Case> {
        let mut out = vec![];
        for i in (0..case.ops.len()).rev() {
            let mut c = case.clone();
            c.ops.remove(i);
            out.push(c);
        }
        for p in simplify_plan(&case.plan) {
            out.push(C15Case {
                plan: p,
                ..case.clone()
            });
        }
        out
    }
}

/// number of dispatches that have completely finished, judged by the slowest counter
fn all_finished_count(ctx: &Ctx, flat: &Flat, issued: u32) -> usize {
    if all_done(ctx, flat, issued).is_ok() {
        issued as usize
    } else {
        usize::MAX
    }
}

fn all_done_before(ctx: &Ctx, flat: &Flat, issued_before: u32) -> Result<(), String> {
    // at the return of dispatch() number `issued_before + 1` everything of the earlier dispatches
    // must be complete; the new one may already be running, so counters may be one ahead
    let exp = expected_runs(flat, issued_before, 0);
    let exp_next = expected_runs(flat, issued_before + 1, 0);
    let got = ctx.runs();
    for s in 0..flat.sys.len() {
        if flat.sys[s].is_tl {
            continue;
        }
        if got[s] < exp[s] || got[s] > exp_next[s] {
            return Err(format!(
                "system {} has run {} times with {} earlier dispatches issued",
                flat.sys[s].sid(),
                got[s],
                issued_before
            ));
        }
    }
    Ok(())
}


// ------------------------------------------------------------------------------------------------
// C15: the 2^k-th dispatch of one asynchronous dispatcher

pub struct C15Many;

#[derive(Clone, Debug, Serialize, Deserialize)]
pub struct C15ManyCase {
    /// the checked dispatches are number 2^k - 1, 2^k and 2^k + 1
    pub k: u8,
    pub threads: u8,
}

impl Prop for C15Many {
    type Case = C15ManyCase;
    fn name(&self) -> &'static str {
        "c15-many-dispatches"
    }
    fn property(&self) -> &'static str {
        "C15"
    }
    fn rule(&self) -> &'static str {
        "one asynchronous dispatcher (two ordinary systems and one thread-local system) on a pool of 1, 2 or 4 threads used for 65537 dispatch / wait rounds; in the rounds 2^j - 1, 2^j and 2^j + 1 (j = 1..16) a system is held inside run: running() must be true while it is held, wait() must return only after it was let go, and at the end every counter equals the number of rounds; non-trivial = every case; distinct = case hash"
    }
    fn stream_len(&self) -> usize {
        4
    }
    fn max_shrink_iters(&self) -> u32 {
        8
    }
    fn gen(&self, src: &mut Src) -> C15ManyCase {
        C15ManyCase {
            k: 16,
            threads: [1u8, 2, 4][src.pick(3)],
        }
    }
    fn check(&self, case: &C15ManyCase, lane: usize, st: &mut Stats) -> Result<(), Fail> {
        use crate::plan::{Kind, Op};
        let k = case.k.clamp(2, 16) as u32;
        let last = (1u32 << k) + 1;
        // checked rounds: 2^j - 1, 2^j, 2^j + 1 for every j <= k
        let near_power = |r: u32| (r.wrapping_sub(1)..=r + 1).any(|x| x >= 2 && x.is_power_of_two());
        let sys = |name: &str| Op::Sys {
            name: name.into(),
            deps: vec![],
            reads: vec![],
            writes: vec![],
            rt: 3,
            kind: Kind::Dyn,
            extra_deps: vec![],
        };
        let plan = vec![sys("a"), sys("b"), Op::Tl { reads: vec![], writes: vec![] }];
        let tp = pool(lane, case.threads.clamp(1, 8) as usize);
        let flat = Arc::new(compile(&plan));
        let ctx = Ctx::new(flat.clone());
        let builder = build_builder(&plan, &flat, 0, &ctx, Some(tp), &BuildOpts::default())
            .map_err(|e| Fail::new(format!("builder panicked: {}", e.msg)))?;
        let mut ad = catch_unwind(AssertUnwindSafe(|| builder.build_async(fresh_world())))
            .map_err(|p| Fail::new(format!("build_async panicked: {}", panic_msg(&p))))?;
        ctx.log_on.store(false, SeqCst);
        ctx.set_phase(PHASE_RUN);
        let held = 0usize; // system "a"
        let result: Result<(), Fail> = (|| {
            for round in 1..=last {
                let checked = near_power(round);
                if checked {
                    ctx.hold[held].store(round, SeqCst);
                }
                ad.dispatch();
                if checked {
                    let t0 = Instant::now();
                    while !ctx.holding[held].load(SeqCst) && t0.elapsed() < Duration::from_secs(5) {
                        std::thread::yield_now();
                    }
                    if !ctx.holding[held].load(SeqCst) {
                        ctx.hold[held].store(0, SeqCst);
                        return Err(Fail::new(format!("dispatch number {}: the system to be held never started", round)));
                    }
                    let r = ad.running();
                    ctx.hold[held].store(0, SeqCst);
                    if !r {
                        return Err(Fail::new(format!(
                            "dispatch number {} of one asynchronous dispatcher: running() returned false while a system is inside run",
                            round
                        )));
                    }
                }
                ad.wait();
                if checked {
                    let runs = ctx.runs();
                    if runs.iter().any(|r| *r != round) {
                        return Err(Fail::new(format!(
                            "after wait() number {} the run counters are {:?}",
                            round, runs
                        )));
                    }
                }
            }
            Ok(())
        })();
        for h in ctx.hold.iter() {
            h.store(0, SeqCst);
        }
        let _ = catch_unwind(AssertUnwindSafe(|| ad.wait_without_tl()));
        ctx.set_phase(PHASE_BUILD);
        ctx.log_on.store(true, SeqCst);
        result?;
        st.class(&format!("rounds_2^{}", k));
        if k >= 8 {
            st.nontrivial(case, || json!({"rounds": last}));
        }
        Ok(())
    }
}
