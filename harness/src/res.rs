//! Resource universe of the harness: `Slot<T>` for T in 0..NT, each with dynamic ids 0..ND.

use serde::{Deserialize, Serialize};
use shred::{Fetch, FetchMut, ResourceId, World};

pub const NT: usize = 8;
/// dynamic-id indices per type; the general generators draw from the first `ND_CLASSIC` of them
pub const ND: usize = 12;
pub const ND_CLASSIC: usize = 4;

/// the dynamic ids behind the small indices the generators use: index 0 is the id of the typed API;
/// the others differ in their low and in their high halves, two of them agree in the low 32 bits, and the
/// extended universe adds direct neighbours of the boundary values
pub fn dyn_id(d: u8) -> u64 {
    match d {
        0 => 0,
        1 => 1,
        2 => 1 << 32,
        3 => u64::MAX,
        // neighbours of the boundary values
        4 => u64::MAX - 1,
        5 => (1 << 32) - 1,
        6 => 1 << 63,
        _ => d as u64,
    }
}

#[derive(Default, Debug, Clone, PartialEq, Eq)]
pub struct Slot<const T: usize> {
    pub val: u64,
}

#[derive(Clone, Copy, PartialEq, Eq, PartialOrd, Ord, Hash, Debug, Serialize, Deserialize)]
pub struct Res {
    pub t: u8,
    pub d: u8,
}

impl Res {
    pub fn new(t: usize, d: usize) -> Res {
        Res {
            t: t as u8,
            d: d as u8,
        }
    }
    /// index in 0..NT*ND
    pub fn index(self) -> usize {
        self.t as usize * ND + self.d as usize
    }
    pub fn from_index(i: usize) -> Res {
        Res::new(i / ND, i % ND)
    }
    /// i in 0..NT*ND_CLASSIC: the 32 resources with dynamic-id index < 4
    pub fn classic(i: usize) -> Res {
        Res::new(i / ND_CLASSIC, i % ND_CLASSIC)
    }
}

pub fn all_res() -> Vec<Res> {
    (0..NT * ND).map(Res::from_index).collect()
}

#[macro_export]
macro_rules! with_slot {
    ($t:expr, $S:ident, $body:expr) => {
        match $t {
            0 => {
                type $S = $crate::res::Slot<0>;
                $body
            }
            1 => {
                type $S = $crate::res::Slot<1>;
                $body
            }
            2 => {
                type $S = $crate::res::Slot<2>;
                $body
            }
            3 => {
                type $S = $crate::res::Slot<3>;
                $body
            }
            4 => {
                type $S = $crate::res::Slot<4>;
                $body
            }
            5 => {
                type $S = $crate::res::Slot<5>;
                $body
            }
            6 => {
                type $S = $crate::res::Slot<6>;
                $body
            }
            7 => {
                type $S = $crate::res::Slot<7>;
                $body
            }
            _ => panic!("harness: slot type index out of range"),
        }
    };
}

pub fn rid(r: Res) -> ResourceId {
    with_slot!(r.t, S, ResourceId::new_with_dynamic_id::<S>(dyn_id(r.d)))
}

pub fn insert(world: &mut World, r: Res, val: u64) {
    let id = rid(r);
    with_slot!(r.t, S, world.insert_by_id(id, S { val }))
}

pub fn remove(world: &mut World, r: Res) -> Option<u64> {
    let id = rid(r);
    with_slot!(r.t, S, world.remove_by_id::<S>(id).map(|s| s.val))
}

pub trait RG {
    fn get(&self) -> u64;
}
pub trait WG {
    fn get(&self) -> u64;
    fn set(&mut self, v: u64);
}

impl<const T: usize> RG for Fetch<'_, Slot<T>> {
    fn get(&self) -> u64 {
        self.val
    }
}
impl<const T: usize> WG for FetchMut<'_, Slot<T>> {
    fn get(&self) -> u64 {
        self.val
    }
    fn set(&mut self, v: u64) {
        self.val = v;
    }
}

pub fn fetch_r<'a>(world: &'a World, r: Res) -> Option<Box<dyn RG + 'a>> {
    let id = rid(r);
    with_slot!(
        r.t,
        S,
        world
            .try_fetch_by_id::<S>(id)
            .map(|g| Box::new(g) as Box<dyn RG + 'a>)
    )
}

pub fn fetch_w<'a>(world: &'a World, r: Res) -> Option<Box<dyn WG + 'a>> {
    let id = rid(r);
    with_slot!(
        r.t,
        S,
        world
            .try_fetch_mut_by_id::<S>(id)
            .map(|g| Box::new(g) as Box<dyn WG + 'a>)
    )
}

#[derive(Clone, Copy, PartialEq, Eq, Debug)]
pub enum Cell {
    Absent,
    Free,
    Shared,
    Excl,
}

/// Classify the real borrow state of a cell without disturbing it.
pub fn probe_id(world: &World, id: ResourceId) -> Cell {
    // SAFETY: we only try to borrow and immediately release; the box is not replaced.
    match unsafe { world.try_fetch_internal(id) } {
        None => Cell::Absent,
        Some(cell) => {
            if cell.try_borrow_mut().is_ok() {
                Cell::Free
            } else if cell.try_borrow().is_ok() {
                Cell::Shared
            } else {
                Cell::Excl
            }
        }
    }
}

pub fn probe(world: &World, r: Res) -> Cell {
    probe_id(world, rid(r))
}

/// Read the value of a cell that is currently not exclusively borrowed.
pub fn peek(world: &World, r: Res) -> Option<u64> {
    fetch_r(world, r).map(|g| g.get())
}

pub fn full_world(init: impl Fn(Res) -> u64) -> World {
    let mut w = World::empty();
    for r in all_res() {
        insert(&mut w, r, init(r));
    }
    w
}

pub fn world_digest(world: &World) -> Vec<(Res, Option<u64>)> {
    all_res().into_iter().map(|r| (r, peek(world, r))).collect()
}

pub fn mix(a: u64, b: u64) -> u64 {
    // splitmix-style, order sensitive
    let mut z = a
        .rotate_left(17)
        .wrapping_mul(0x9E37_79B9_7F4A_7C15)
        .wrapping_add(b ^ 0xD6E8_FEB8_6659_FD93);
    z = (z ^ (z >> 30)).wrapping_mul(0xBF58_476D_1CE4_E5B9);
    z = (z ^ (z >> 27)).wrapping_mul(0x94D0_49BB_1331_11EB);
    z ^ (z >> 31)
}
