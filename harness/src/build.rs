//! plan -> real `DispatcherBuilder` -> real dispatcher; layout recovery through the shape hook
//! plus an identification run.

use std::collections::HashMap;
use std::marker::PhantomData;
use std::panic::{catch_unwind, AssertUnwindSafe};
use std::rc::Rc;
use std::sync::{Arc, Mutex};

use shred::{Dispatcher, DispatcherBuilder, MultiDispatcher, World};

use crate::conductor::{Layout, LayoutSet};
use crate::hsys::*;
use crate::plan::{Ctl, Flat, Kind, Op};
use crate::res;
use crate::with_fam;

pub type Builder = DispatcherBuilder<'static, 'static>;

#[derive(Debug, Clone)]
pub struct BuildPanic {
    /// path of the op whose registration call panicked
    pub path: Vec<usize>,
    pub msg: String,
}

/// A builder call (or `build()`) that panics *after* the caller caught a rejected registration on
/// the same builder: nothing is claimed about such a builder (it need not stay usable), so the
/// case is discarded, not reported. A builder that stays usable is checked like any other.
pub const AFTER_REJECTED: &str = "[after a rejected registration attempt on this builder]";

pub fn panic_msg(p: &Box<dyn std::any::Any + Send>) -> String {
    if let Some(s) = p.downcast_ref::<String>() {
        s.clone()
    } else if let Some(s) = p.downcast_ref::<&'static str>() {
        s.to_string()
    } else if let Some(f) = p.downcast_ref::<HarnessFault>() {
        format!("HarnessFault({})", f.0)
    } else {
        "<non-string panic payload>".to_string()
    }
}

#[cfg(feature = "par")]
pub type Pool = Arc<rayon::ThreadPool>;
/// without shred's `parallel` feature there are no pools
#[cfg(not(feature = "par"))]
pub type Pool = ();

#[cfg(not(feature = "par"))]
pub fn pool(_lane: usize, _threads: usize) -> Pool {}

#[cfg(feature = "par")]
static POOLS: Mutex<Option<HashMap<(usize, usize), Pool>>> = Mutex::new(None);

/// Pools are cached per (lane, size); a lane never runs two cases at once.
#[cfg(feature = "par")]
pub fn pool(lane: usize, threads: usize) -> Pool {
    let mut g = POOLS.lock().unwrap();
    let m = g.get_or_insert_with(HashMap::new);
    m.entry((lane, threads))
        .or_insert_with(|| {
            Arc::new(
                rayon::ThreadPoolBuilder::new()
                    .num_threads(threads)
                    .thread_name(move |i| format!("vpool-{}-{}-{}", lane, threads, i))
                    .build()
                    .expect("harness: cannot build thread pool"),
            )
        })
        .clone()
}

pub struct BuildOpts {
    pub provide: bool,
    pub capture_debug: bool,
    /// also call `print_par_seq` (stdout is pointed at /dev/null for the duration of the call)
    pub call_print: bool,
    /// where the top-level builder gets its pool: 0 = first call (nested builders get it explicitly
    /// too), 1 = last call, after every registration (nested builders get none of their own: they
    /// follow the outer builder's shared pool slot), 2 = like 1, with a one-thread decoy pool attached
    /// first and replaced at the end
    pub pool_attach: u8,
    /// attach no pool at all: the dispatcher creates rayon's default pool for itself
    pub no_pool: bool,
}

static PRINT_LOCK: Mutex<()> = Mutex::new(());

/// runs `f` with file descriptor 1 redirected to an anonymous memory file and returns what was
/// written to it (None if the redirection could not be set up: then stdout went to /dev/null or
/// stayed where it was)
fn with_stdout_captured<R>(f: impl FnOnce() -> R) -> (R, Option<String>) {
    use std::io::Write;
    let _g = PRINT_LOCK.lock().unwrap_or_else(|e| e.into_inner());
    let _ = std::io::stdout().flush();
    // SAFETY: plain POSIX calls on descriptors this function owns
    unsafe {
        let saved = libc::dup(1);
        let mem = libc::memfd_create(b"vcheck-stdout\0".as_ptr() as *const libc::c_char, 0);
        let redirected = saved >= 0 && mem >= 0 && libc::dup2(mem, 1) >= 0;
        let r = f();
        let _ = std::io::stdout().flush();
        if saved >= 0 {
            libc::dup2(saved, 1);
            libc::close(saved);
        }
        let mut text = None;
        if mem >= 0 {
            if redirected {
                let len = libc::lseek(mem, 0, libc::SEEK_END);
                if len >= 0 && len < (64 << 20) {
                    let mut buf = vec![0u8; len as usize];
                    libc::lseek(mem, 0, libc::SEEK_SET);
                    let mut got = 0usize;
                    while got < buf.len() {
                        let n = libc::read(mem, buf[got..].as_mut_ptr() as *mut libc::c_void, buf.len() - got);
                        if n <= 0 {
                            break;
                        }
                        got += n as usize;
                    }
                    buf.truncate(got);
                    text = Some(String::from_utf8_lossy(&buf).into_owned());
                }
            }
            libc::close(mem);
        }
        (r, text)
    }
}

impl Default for BuildOpts {
    fn default() -> Self {
        BuildOpts {
            provide: true,
            capture_debug: false,
            call_print: false,
            pool_attach: 0,
            no_pool: false,
        }
    }
}

/// Registers `ops` on a fresh builder. Every registration call runs under `catch_unwind`.
pub fn build_builder(
    ops: &[Op],
    flat: &Flat,
    bid: usize,
    ctx: &Arc<Ctx>,
    pool: Option<Pool>,
    opts: &BuildOpts,
) -> Result<Builder, BuildPanic> {
    let mut b = Builder::new();
    #[cfg(feature = "par")]
    if let Some(p) = pool.clone() {
        if opts.pool_attach == 0 {
            // both spellings
            if bid % 2 == 0 {
                b.add_pool(p);
            } else {
                b = b.with_pool(p);
            }
        } else if opts.pool_attach == 2 && bid == 0 {
            b.add_pool(crate::build::pool(900, 1));
        }
    }
    let bi = &flat.builders[bid];
    for (i, op) in ops.iter().enumerate() {
        let after_rejected = ops[..i].iter().any(|o| matches!(o, Op::Rejected { .. }));
        let guard = |r: std::thread::Result<()>| -> Result<(), BuildPanic> {
            r.map_err(|p| {
                let mut path = bi
                    .owner
                    .map(|o| flat.sys[o].path.clone())
                    .unwrap_or_default();
                path.push(i);
                BuildPanic {
                    path,
                    msg: if after_rejected {
                        format!("{} {}", AFTER_REJECTED, panic_msg(&p))
                    } else {
                        panic_msg(&p)
                    },
                }
            })
        };
        let dep_names = |deps: &Vec<usize>| -> Vec<String> {
            deps.iter()
                .map(|d| match &ops[*d] {
                    Op::Sys { name, .. } | Op::Batch { name, .. } => name.clone(),
                    _ => panic!("harness: dependency on a nameless op"),
                })
                .collect()
        };
        match op {
            Op::Rejected { dup_of, unknown_dep } => {
                // a registration that must be rejected; the builder is used further afterwards
                let name = match &ops[*dup_of] {
                    Op::Sys { name, .. } | Op::Batch { name, .. } => name.clone(),
                    _ => String::new(),
                };
                if *unknown_dep {
                    let sys = DynSys {
                        acc: HAcc {
                            ctx: ctx.clone(),
                            idx: usize::MAX,
                            reads: vec![],
                            writes: vec![],
                            provide: false,
                        },
                        rt: 3,
                    };
                    // no generated name contains a NUL character
                    let r = catch_unwind(AssertUnwindSafe(|| {
                        b.add(sys, "", &[name.as_str(), "never\0registered"])
                    }));
                    if r.is_ok() {
                        return Err(BuildPanic {
                            path: vec![i],
                            msg: "a dependency on a name that was never registered was accepted without a panic".into(),
                        });
                    }
                    continue;
                }
                let sys = DynSys {
                    acc: HAcc {
                        ctx: ctx.clone(),
                        idx: usize::MAX,
                        reads: vec![],
                        writes: vec![],
                        provide: false,
                    },
                    rt: 3,
                };
                let r = catch_unwind(AssertUnwindSafe(|| b.add(sys, &name, &[])));
                if r.is_ok() && !name.is_empty() {
                    return Err(BuildPanic {
                        path: vec![i],
                        msg: format!("reusing the name {:?} was accepted without a panic", name),
                    });
                }
            }
            Op::Barrier => {
                // both API styles are exercised: `add_*` on even op positions, the chaining
                // `with_*` on odd ones
                if i % 2 == 0 {
                    guard(catch_unwind(AssertUnwindSafe(|| b.add_barrier())))?;
                } else {
                    let taken = std::mem::take(&mut b);
                    b = match catch_unwind(AssertUnwindSafe(|| taken.with_barrier())) {
                        Ok(nb) => nb,
                        Err(p) => return guard(Err(p)).map(|_| Builder::new()),
                    };
                }
            }
            Op::Tl { reads, writes } => {
                let idx = bi.op_sys[i].unwrap();
                let sys = TlSys {
                    ctx: ctx.clone(),
                    idx,
                    reads: reads.clone(),
                    writes: writes.clone(),
                    provide: opts.provide,
                    _not_send: Rc::new(()),
                };
                if i % 2 == 0 {
                    guard(catch_unwind(AssertUnwindSafe(|| b.add_thread_local(sys))))?;
                } else {
                    let taken = std::mem::take(&mut b);
                    b = match catch_unwind(AssertUnwindSafe(|| taken.with_thread_local(sys))) {
                        Ok(nb) => nb,
                        Err(p) => return guard(Err(p)).map(|_| Builder::new()),
                    };
                }
            }
            Op::Sys {
                name,
                deps,
                reads,
                writes,
                rt,
                kind,
                extra_deps,
            } => {
                let idx = bi.op_sys[i].unwrap();
                let mut dn = dep_names(deps);
                dn.extend(extra_deps.iter().cloned());
                let dr: Vec<&str> = dn.iter().map(|s| s.as_str()).collect();
                match kind {
                    Kind::Dyn => {
                        let sys = DynSys {
                            acc: HAcc {
                                ctx: ctx.clone(),
                                idx,
                                reads: reads.clone(),
                                writes: writes.clone(),
                                provide: opts.provide,
                            },
                            rt: *rt,
                        };
                        if i % 2 == 0 {
                            guard(catch_unwind(AssertUnwindSafe(|| b.add(sys, name, &dr))))?;
                        } else {
                            let taken = std::mem::take(&mut b);
                            b = match catch_unwind(AssertUnwindSafe(|| taken.with(sys, name, &dr))) {
                                Ok(nb) => nb,
                                Err(p) => return guard(Err(p)).map(|_| Builder::new()),
                            };
                        }
                    }
                    Kind::Static(k) => {
                        with_fam!(*k, F, {
                            let sys = StaticSys::<F> {
                                ctx: ctx.clone(),
                                idx,
                                rt: *rt,
                                _f: PhantomData,
                            };
                            guard(catch_unwind(AssertUnwindSafe(|| b.add(sys, name, &dr))))?;
                        });
                    }
                }
            }
            Op::Batch {
                name,
                deps,
                decl,
                ctl,
                rt,
                inner,
                extra_deps,
            } => {
                let idx = bi.op_sys[i].unwrap();
                let ib = flat.sys[idx].inner_bid.unwrap();
                // every nested builder gets the pool explicitly: a builder without one would create a
                // default 16-thread pool as soon as *its* nested batch is built
                let inner_b = build_builder(inner, flat, ib, ctx, pool.clone(), opts)?;
                let mut dn = dep_names(deps);
                dn.extend(extra_deps.iter().cloned());
                let dr: Vec<&str> = dn.iter().map(|s| s.as_str()).collect();
                with_fam!(*decl, F, {
                    match ctl {
                        Ctl::Custom { n } => {
                            let c = CustomCtl::<F> {
                                ctx: ctx.clone(),
                                idx,
                                n: *n as usize,
                                rt: *rt,
                                _f: PhantomData,
                            };
                            if i % 2 == 0 {
                                guard(catch_unwind(AssertUnwindSafe(|| {
                                    b.add_batch(c, inner_b, name, &dr)
                                })))?;
                            } else {
                                let taken = std::mem::take(&mut b);
                                b = match catch_unwind(AssertUnwindSafe(|| {
                                    taken.with_batch(c, inner_b, name, &dr)
                                })) {
                                    Ok(nb) => nb,
                                    Err(p) => return guard(Err(p)).map(|_| Builder::new()),
                                };
                            }
                        }
                        Ctl::Multi { planned } => {
                            let c = MultiDispatcher::new(MultiCtl::<F> {
                                ctx: ctx.clone(),
                                idx,
                                planned: *planned as usize,
                                _f: PhantomData,
                            });
                            guard(catch_unwind(AssertUnwindSafe(|| {
                                b.add_batch(c, inner_b, name, &dr)
                            })))?;
                        }
                    }
                });
            }
        }
    }
    #[cfg(feature = "par")]
    if let Some(p) = pool.clone() {
        if opts.pool_attach != 0 && bid == 0 {
            b.add_pool(p);
        }
    }
    if opts.capture_debug {
        let text = catch_unwind(AssertUnwindSafe(|| format!("{:?}", b))).map_err(|p| panic_msg(&p));
        // the same builder through other format specifications: width, precision, fill, alternate
        if let Ok(plain) = &text {
            let variants: Vec<(&str, Result<String, String>)> = vec![
                ("{:#?}", catch_unwind(AssertUnwindSafe(|| format!("{:#?}", b))).map_err(|p| panic_msg(&p))),
                ("{:.2?}", catch_unwind(AssertUnwindSafe(|| format!("{:.2?}", b))).map_err(|p| panic_msg(&p))),
                ("{:40?}", catch_unwind(AssertUnwindSafe(|| format!("{:40?}", b))).map_err(|p| panic_msg(&p))),
                ("{:*<9.1?}", catch_unwind(AssertUnwindSafe(|| format!("{:*<9.1?}", b))).map_err(|p| panic_msg(&p))),
            ];
            // a formatting attempt that fails half-way (the sink refuses after 16 bytes) leaves nothing
            // behind: the next `{:?}` gives the same text as before
            struct Bounded(usize);
            impl std::fmt::Write for Bounded {
                fn write_str(&mut self, s: &str) -> std::fmt::Result {
                    if s.len() > self.0 {
                        self.0 = 0;
                        Err(std::fmt::Error)
                    } else {
                        self.0 -= s.len();
                        Ok(())
                    }
                }
            }
            let _ = catch_unwind(AssertUnwindSafe(|| {
                use std::fmt::Write;
                let _ = write!(Bounded(16), "{:?}", b);
            }));
            let mut variants = variants;
            variants.push((
                "{:?} after an attempt that failed in a bounded sink",
                catch_unwind(AssertUnwindSafe(|| format!("{:?}", b))).map_err(|p| panic_msg(&p)),
            ));
            for (spec, t) in variants {
                if t.as_ref().ok() != Some(plain) {
                    ctx.debug_variants
                        .lock()
                        .unwrap()
                        .entry(bid)
                        .or_default()
                        .push((spec.to_string(), t.unwrap_or_else(|e| format!("panic: {}", e))));
                }
            }
        }
        ctx.debug_texts.lock().unwrap().insert(bid, text);
    }
    if opts.call_print {
        let (r, printed) = with_stdout_captured(|| catch_unwind(AssertUnwindSafe(|| b.print_par_seq())));
        if let Some(t) = printed {
            ctx.printed_texts.lock().unwrap().insert(bid, t);
        }
        if let Err(p) = r {
            ctx.debug_texts
                .lock()
                .unwrap()
                .insert(bid, Err(format!("print_par_seq panicked: {}", panic_msg(&p))));
        }
    }
    Ok(b)
}

fn cut(ident: &[usize], shape: &[Vec<usize>], n_tl: usize) -> Result<Layout, String> {
    let total: usize = shape.iter().map(|s| s.iter().sum::<usize>()).sum::<usize>() + n_tl;
    if ident.len() != total {
        return Err(format!(
            "identification run saw {} systems but the executed shape holds {}",
            ident.len(),
            total
        ));
    }
    let mut it = ident.iter().cloned();
    let mut stages = vec![];
    for st in shape {
        let mut groups = vec![];
        for g in st {
            groups.push((0..*g).map(|_| it.next().unwrap()).collect::<Vec<_>>());
        }
        stages.push(groups);
    }
    Ok(Layout {
        stages,
        tl: it.collect(),
    })
}

/// Recovers the executed layout of `d` and of every nested batch dispatcher.
/// `plan` is needed for batches driven by shred's `MultiDispatcher` (twin build).
pub fn recover_layouts(
    plan: &[Op],
    flat: &Flat,
    ctx: &Arc<Ctx>,
    d: &mut Dispatcher<'static, 'static>,
    pool: Pool,
) -> Result<LayoutSet, String> {
    let world = res::full_world(|_| 0);
    recover_with(plan, flat, ctx, 0, d, &world, pool)
}

fn recover_with(
    ops: &[Op],
    flat: &Flat,
    ctx: &Arc<Ctx>,
    bid: usize,
    d: &mut Dispatcher<'static, 'static>,
    world: &World,
    pool: Pool,
) -> Result<LayoutSet, String> {
    let prev = ctx.phase();
    ctx.set_phase(PHASE_IDENT);
    {
        let mut id = ctx.ident.lock().unwrap();
        for v in id.iter_mut() {
            v.clear();
        }
        ctx.shapes.lock().unwrap().clear();
    }
    let r = catch_unwind(AssertUnwindSafe(|| {
        d.dispatch_seq(world);
        d.dispatch_thread_local(world);
    }));
    ctx.set_phase(prev);
    if let Err(p) = r {
        return Err(format!("identification run panicked: {}", panic_msg(&p)));
    }
    let (shape, n_tl) = d.verif_shape();
    let ident = ctx.ident.lock().unwrap().clone();
    let shapes = ctx.shapes.lock().unwrap().clone();
    let mut set = LayoutSet::default();
    set.by_bid.insert(bid, cut(&ident[bid], &shape, n_tl)?);
    // nested builders reached through custom controllers
    for (owner, (shape, n_tl)) in shapes.iter() {
        let ib = flat.sys[*owner].inner_bid.unwrap();
        set.by_bid
            .insert(ib, cut(&ident[ib], shape, *n_tl).map_err(|e| {
                format!("inside batch {}: {}", flat.sys[*owner].sid(), e)
            })?);
    }
    // batches under MultiDispatcher (and anything nested below them): twin builds
    let missing: Vec<usize> = flat
        .builders
        .iter()
        .map(|b| b.bid)
        .filter(|b| !set.by_bid.contains_key(b))
        .filter(|b| {
            // only builders nested (at any depth) inside builder `bid`
            let mut cur = flat.builders[*b].owner;
            while let Some(o) = cur {
                if flat.sys[o].bid == bid {
                    return true;
                }
                cur = flat.builders[flat.sys[o].bid].owner;
            }
            false
        })
        .collect();
    for mb in missing {
        if set.by_bid.contains_key(&mb) {
            continue;
        }
        // only twin-build builders whose owner's builder is already known (top-down)
        let owner = flat.builders[mb].owner.unwrap();
        if !set.by_bid.contains_key(&flat.sys[owner].bid) {
            continue;
        }
        let inner_ops = ops_at(ops_root(ops), &flat.sys[owner].path, flat, bid);
        let tb = build_builder(inner_ops, flat, mb, ctx, Some(pool.clone()), &BuildOpts::default())
            .map_err(|e| format!("twin build panicked: {}", e.msg))?;
        let mut td = tb.build();
        let sub = recover_with(inner_ops, flat, ctx, mb, &mut td, world, pool.clone())?;
        for (k, v) in sub.by_bid {
            set.by_bid.insert(k, v);
        }
    }
    Ok(set)
}

fn ops_root(ops: &[Op]) -> &[Op] {
    ops
}

/// inner op list of the batch at `path` (absolute path); `ops` is the op list of builder `bid`
fn ops_at<'p>(ops: &'p [Op], path: &[usize], flat: &Flat, bid: usize) -> &'p [Op] {
    // strip the prefix that leads to builder `bid`
    let prefix_len = flat.builders[bid]
        .owner
        .map(|o| flat.sys[o].path.len())
        .unwrap_or(0);
    let mut cur = ops;
    for p in &path[prefix_len..] {
        match &cur[*p] {
            Op::Batch { inner, .. } => cur = inner,
            _ => panic!("harness: path does not lead to a batch"),
        }
    }
    cur
}

pub struct Built {
    pub flat: Arc<Flat>,
    pub ctx: Arc<Ctx>,
    pub d: Dispatcher<'static, 'static>,
    pub layouts: Arc<LayoutSet>,
}

/// plan -> real dispatcher + recovered layouts
pub fn build_plan(
    plan: &[Op],
    pool: Pool,
    opts: &BuildOpts,
) -> Result<Built, String> {
    let flat = Arc::new(crate::plan::compile(&plan.to_vec()));
    let ctx = Ctx::new(flat.clone());
    let b = build_builder(plan, &flat, 0, &ctx, if opts.no_pool { None } else { Some(pool.clone()) }, opts)
        .map_err(|e| format!("builder panicked at op {:?}: {}", e.path, e.msg))?;
    fn has_rejected(ops: &[Op]) -> bool {
        ops.iter().any(|o| match o {
            Op::Rejected { .. } => true,
            Op::Batch { inner, .. } => has_rejected(inner),
            _ => false,
        })
    }
    let mark = if has_rejected(plan) { AFTER_REJECTED } else { "" };
    let mut d = catch_unwind(AssertUnwindSafe(|| b.build()))
        .map_err(|p| format!("build() panicked: {} {}", mark, panic_msg(&p)))?;
    let layouts = recover_layouts(plan, &flat, &ctx, &mut d, pool)?;
    Ok(Built {
        flat,
        ctx,
        d,
        layouts: Arc::new(layouts),
    })
}
