//! Value types of different size and drop behaviour for the world-family checks, with a per-thread
//! tracker that sees every construction and every drop.

use std::any::TypeId;
use std::cell::RefCell;
use std::collections::BTreeSet;

use shred::{ResourceId, World};

pub const NWT: usize = 8;
pub const NWD: usize = 5;

#[derive(Default)]
pub struct Tracker {
    pub live: BTreeSet<(u8, u64)>,
    pub double_drops: Vec<(u8, u64)>,
    pub created: u64,
    pub dropped: u64,
    pub next_default: u64,
    pub bad_pattern: Vec<(u8, u64)>,
}

thread_local! {
    pub static TRACK: RefCell<Tracker> = RefCell::new(Tracker::default());
}

pub fn tracker_reset() {
    TRACK.with(|t| {
        *t.borrow_mut() = Tracker {
            next_default: 1_000_000,
            ..Tracker::default()
        }
    });
}

fn born(ty: u8, id: u64) {
    TRACK.with(|t| {
        let mut t = t.borrow_mut();
        t.created += 1;
        t.live.insert((ty, id));
    });
}

thread_local! {
    /// armed destructor: the next drop of this (type, id) panics after it was recorded
    pub static BOMB: std::cell::Cell<Option<(u8, u64)>> = const { std::cell::Cell::new(None) };
}

pub struct BombPayload;

fn died(ty: u8, id: u64, pattern_ok: bool) {
    died_record(ty, id, pattern_ok);
    let armed = BOMB.try_with(|b| b.get()).ok().flatten();
    if armed == Some((ty, id)) && !std::thread::panicking() {
        let _ = BOMB.try_with(|b| b.set(None));
        std::panic::panic_any(BombPayload);
    }
}

fn died_record(ty: u8, id: u64, pattern_ok: bool) {
    // never panic in a destructor: record
    let _ = TRACK.try_with(|t| {
        if let Ok(mut t) = t.try_borrow_mut() {
            t.dropped += 1;
            if !t.live.remove(&(ty, id)) {
                t.double_drops.push((ty, id));
            }
            if !pattern_ok {
                t.bad_pattern.push((ty, id));
            }
        }
    });
}

fn default_id() -> u64 {
    TRACK.with(|t| {
        let mut t = t.borrow_mut();
        t.next_default += 1;
        t.next_default
    })
}

pub trait Tracked: Sized + Send + Sync + 'static {
    const TY: u8;
    fn make(id: u64) -> Self;
    fn id(&self) -> u64;
    fn pattern_ok(&self) -> bool;
}

/// zero-sized: carries no id; all instances share id 0 of its type (at most one alive per case slot
/// would not be trackable, so the tracker counts them with a per-instance pseudo id)
pub struct Z;
thread_local! { static Z_LIVE: RefCell<u64> = const { RefCell::new(0) }; }

impl Tracked for Z {
    const TY: u8 = 0;
    fn make(_id: u64) -> Self {
        TRACK.with(|t| t.borrow_mut().created += 1);
        Z_LIVE.with(|z| *z.borrow_mut() += 1);
        Z
    }
    fn id(&self) -> u64 {
        0
    }
    fn pattern_ok(&self) -> bool {
        true
    }
}
impl Drop for Z {
    fn drop(&mut self) {
        let _ = TRACK.try_with(|t| {
            if let Ok(mut t) = t.try_borrow_mut() {
                t.dropped += 1;
            }
        });
        let _ = Z_LIVE.try_with(|z| {
            if let Ok(mut z) = z.try_borrow_mut() {
                if *z == 0 {
                    let _ = TRACK.try_with(|t| {
                        if let Ok(mut t) = t.try_borrow_mut() {
                            t.double_drops.push((0, 0));
                        }
                    });
                } else {
                    *z -= 1;
                }
            }
        });
    }
}
impl Default for Z {
    fn default() -> Self {
        Z::make(0)
    }
}
pub fn z_live() -> u64 {
    Z_LIVE.with(|z| *z.borrow())
}
pub fn z_reset() {
    Z_LIVE.with(|z| *z.borrow_mut() = 0);
}

/// one byte: ids are taken modulo 256 by the harness
pub struct B1(pub u8);
impl Tracked for B1 {
    const TY: u8 = 1;
    fn make(id: u64) -> Self {
        born(1, id & 0xff);
        B1(id as u8)
    }
    fn id(&self) -> u64 {
        self.0 as u64
    }
    fn pattern_ok(&self) -> bool {
        true
    }
}
impl Drop for B1 {
    fn drop(&mut self) {
        died(1, self.0 as u64, true);
    }
}
impl Default for B1 {
    fn default() -> Self {
        // one-byte ids: defaults use the range 200..=255 round robin
        let d = default_id();
        B1::make(200 + d % 56)
    }
}

pub struct W8(pub u64);
impl Tracked for W8 {
    const TY: u8 = 2;
    fn make(id: u64) -> Self {
        born(2, id);
        W8(id)
    }
    fn id(&self) -> u64 {
        self.0
    }
    fn pattern_ok(&self) -> bool {
        true
    }
}
impl Drop for W8 {
    fn drop(&mut self) {
        died(2, self.0, true);
    }
}
impl Default for W8 {
    fn default() -> Self {
        W8::make(default_id())
    }
}

pub struct Big {
    pub id: u64,
    pub pad: [u8; 504],
}
impl Tracked for Big {
    const TY: u8 = 3;
    fn make(id: u64) -> Self {
        born(3, id);
        let mut pad = [0u8; 504];
        for (i, p) in pad.iter_mut().enumerate() {
            *p = (id as usize).wrapping_mul(31).wrapping_add(i) as u8;
        }
        Big { id, pad }
    }
    fn id(&self) -> u64 {
        self.id
    }
    fn pattern_ok(&self) -> bool {
        self.pad
            .iter()
            .enumerate()
            .all(|(i, p)| *p == (self.id as usize).wrapping_mul(31).wrapping_add(i) as u8)
    }
}
impl Drop for Big {
    fn drop(&mut self) {
        died(3, self.id, self.pattern_ok());
    }
}
impl Default for Big {
    fn default() -> Self {
        Big::make(default_id())
    }
}

pub struct Heap {
    pub id: u64,
    pub v: Vec<u64>,
    pub s: String,
}
impl Tracked for Heap {
    const TY: u8 = 4;
    fn make(id: u64) -> Self {
        born(4, id);
        Heap {
            id,
            v: (0..(id % 7 + 1)).map(|i| id ^ i).collect(),
            s: format!("heap-{}", id),
        }
    }
    fn id(&self) -> u64 {
        self.id
    }
    fn pattern_ok(&self) -> bool {
        self.v.len() as u64 == self.id % 7 + 1
            && self.v.iter().enumerate().all(|(i, x)| *x == self.id ^ i as u64)
            && self.s == format!("heap-{}", self.id)
    }
}
impl Drop for Heap {
    fn drop(&mut self) {
        died(4, self.id, self.pattern_ok());
    }
}
impl Default for Heap {
    fn default() -> Self {
        Heap::make(default_id())
    }
}

/// plain data without drop glue (`needs_drop` is false): not tracked, identity is the value
pub struct Plain {
    pub id: u64,
    pub pad: [u32; 3],
}
impl Default for Plain {
    fn default() -> Self {
        Plain::make(999_000)
    }
}
impl Tracked for Plain {
    const TY: u8 = 5;
    fn make(id: u64) -> Self {
        Plain {
            id,
            pad: [id as u32 ^ 0x1111, id as u32 ^ 0x2222, id as u32 ^ 0x3333],
        }
    }
    fn id(&self) -> u64 {
        self.id
    }
    fn pattern_ok(&self) -> bool {
        self.pad == [self.id as u32 ^ 0x1111, self.id as u32 ^ 0x2222, self.id as u32 ^ 0x3333]
    }
}

/// larger than a page: exercises every size-dependent path a container may have
pub struct Huge {
    pub id: u64,
    pub pad: [u8; 5000],
}
impl Tracked for Huge {
    const TY: u8 = 6;
    fn make(id: u64) -> Self {
        born(6, id);
        let mut pad = [0u8; 5000];
        for (i, p) in pad.iter_mut().enumerate() {
            *p = (id as usize).wrapping_mul(17).wrapping_add(i) as u8;
        }
        Huge { id, pad }
    }
    fn id(&self) -> u64 {
        self.id
    }
    fn pattern_ok(&self) -> bool {
        self.pad
            .iter()
            .enumerate()
            .all(|(i, p)| *p == (self.id as usize).wrapping_mul(17).wrapping_add(i) as u8)
    }
}
impl Drop for Huge {
    fn drop(&mut self) {
        died(6, self.id, self.pattern_ok());
    }
}
impl Default for Huge {
    fn default() -> Self {
        Huge::make(default_id())
    }
}

/// over-aligned
#[repr(align(256))]
pub struct Aligned {
    pub id: u64,
    pub tag: u32,
}
impl Tracked for Aligned {
    const TY: u8 = 7;
    fn make(id: u64) -> Self {
        born(7, id);
        Aligned { id, tag: id as u32 ^ 0x5a5a_5a5a }
    }
    fn id(&self) -> u64 {
        self.id
    }
    fn pattern_ok(&self) -> bool {
        self.tag == self.id as u32 ^ 0x5a5a_5a5a && (self as *const Self as usize) % 256 == 0
    }
}
impl Drop for Aligned {
    fn drop(&mut self) {
        died(7, self.id, self.pattern_ok());
    }
}
impl Default for Aligned {
    fn default() -> Self {
        Aligned::make(default_id())
    }
}

#[macro_export]
macro_rules! with_wt {
    ($t:expr, $T:ident, $body:expr) => {
        match $t {
            0 => {
                type $T = $crate::wtypes::Z;
                $body
            }
            1 => {
                type $T = $crate::wtypes::B1;
                $body
            }
            2 => {
                type $T = $crate::wtypes::W8;
                $body
            }
            3 => {
                type $T = $crate::wtypes::Big;
                $body
            }
            4 => {
                type $T = $crate::wtypes::Heap;
                $body
            }
            5 => {
                type $T = $crate::wtypes::Plain;
                $body
            }
            6 => {
                type $T = $crate::wtypes::Huge;
                $body
            }
            7 => {
                type $T = $crate::wtypes::Aligned;
                $body
            }
            _ => panic!("harness: world type index out of range"),
        }
    };
}

pub fn wrid(t: u8, d: u8) -> ResourceId {
    with_wt!(t, T, ResourceId::new_with_dynamic_id::<T>(crate::res::dyn_id(match d { 1 => 2, 2 => 3, 3 => 4, 4 => 5, _ => d })))
}

pub fn wtype_id(t: u8) -> TypeId {
    with_wt!(t, T, TypeId::of::<T>())
}

/// the id a value of type `t` will report when made with `id`
pub fn norm_id(t: u8, id: u64) -> u64 {
    match t {
        0 => 0,
        1 => id & 0xff,
        _ => id,
    }
}

pub fn wprobe(world: &World, t: u8, d: u8) -> crate::res::Cell {
    crate::res::probe_id(world, wrid(t, d))
}
