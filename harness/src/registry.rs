//! The table of all sub-checks per property (shared by the CLI and the fuzz targets).

use crate::driver::{self, DynProp};
use crate::p_layout::LayoutProp;
use crate::plan::GenCfg;
use crate::{build, exec, p_async, p_builder, p_layout, p_meta, p_misc, p_parseq, p_sched, p_world, p_world_conc};

pub struct Sub {
    pub p: Box<dyn DynProp>,
    pub quick: usize,
    pub thorough: usize,
    /// cap on lanes (checks that own thread pools use fewer lanes)
    pub max_lanes: usize,
}

pub fn sub<P: driver::Prop + 'static>(p: P, quick: usize, thorough: usize) -> Sub {
    Sub {
        p: Box::new(p),
        quick,
        thorough,
        max_lanes: 16,
    }
}

/// sub-checks that run a case on the calling thread only (usable inside a libFuzzer target)
pub fn fuzzable(name: &str) -> bool {
    name.contains("-layout")
        || name == "c03-noop-barrier"
        || name.starts_with("c18-")
        || name.starts_with("c19-")
        || name.starts_with("c20-")
        || name == "c08-model"
        || name == "c09-model"
        || name == "c17-model"
        || name == "c13-setup-dispose"
}

pub const FUZZ_PROPS: [&str; 13] = [
    "C01", "C02", "C03", "C04", "C07", "C08", "C09", "C10", "C13", "C17", "C18", "C19", "C20",
];

pub const ALL: [&str; 20] = [
    "C01", "C02", "C03", "C04", "C05", "C06", "C07", "C08", "C09", "C10", "C11", "C12", "C13",
    "C14", "C15", "C16", "C17", "C18", "C19", "C20",
];

pub fn lp(
    property: &'static str,
    name: &'static str,
    rule: &'static str,
    cfg: GenCfg,
    stream_len: usize,
    oracle: p_layout::Oracle,
) -> LayoutProp {
    LayoutProp {
        property,
        name,
        rule,
        cfg,
        stream_len,
        oracle,
        capture_debug: false,
    }
}

/// small universe, single-resource writers, skewed running times: many systems funnel into one group
pub fn funnel_cfg() -> GenCfg {
    GenCfg {
        max_ops: 40,
        universe_max: 3,
        max_reads: 1,
        max_writes: 1,
        p_barrier: 0,
        p_batch: 0,
        p_tl: 0,
        p_dep: 1,
        p_static: 0,
        ..GenCfg::default()
    }
}

/// sparse conflicts over a large universe: stages wider than every inline capacity (6 groups per
/// stage, 12 reads / 10 writes per group), dependency lists longer than 4
pub fn wide_cfg() -> GenCfg {
    GenCfg {
        max_ops: 30,
        universe_max: 28,
        max_reads: 5,
        max_writes: 1,
        p_dep: 3,
        max_deps: 7,
        p_copy_deps: 3,
        p_barrier: 1,
        p_batch: 0,
        p_tl: 1,
        p_static: 0,
        ..GenCfg::default()
    }
}

/// up to 14 writes per system (write lists past the inline capacity of 10, in declared order)
pub fn heavy_writers_cfg() -> GenCfg {
    GenCfg {
        max_ops: 20,
        universe_max: 40,
        extended_universe: true,
        max_reads: 2,
        max_writes: 14,
        rt_skew: 6,
        p_dep: 1,
        p_barrier: 0,
        p_batch: 0,
        p_tl: 0,
        p_static: 0,
        batch_decl: false,
        ..GenCfg::default()
    }
}

/// more than 64 distinct resources in one builder
pub fn many_resources_cfg() -> GenCfg {
    GenCfg {
        max_ops: 60,
        universe_max: 95,
        extended_universe: true,
        rt_skew: 6,
        max_reads: 5,
        max_writes: 3,
        p_dep: 1,
        p_barrier: 0,
        p_batch: 0,
        p_tl: 0,
        p_static: 0,
        batch_decl: false,
        ..GenCfg::default()
    }
}

/// up to 150 registrations per builder: system ids beyond 64 and 128
pub fn long_cfg() -> GenCfg {
    GenCfg {
        max_ops: 150,
        universe_max: 24,
        max_reads: 2,
        max_writes: 1,
        p_dep: 6,
        max_deps: 3,
        p_batch: 0,
        p_static: 0,
        rt_skew: 4,
        ..GenCfg::default()
    }
}

/// up to 150 mostly independent systems and no barriers: single stages with more than 64 groups
pub fn very_wide_cfg() -> GenCfg {
    GenCfg {
        max_ops: 150,
        universe_max: 95,
        extended_universe: true,
        max_reads: 1,
        max_writes: 1,
        write_chance: 5,
        p_dep: 1,
        max_deps: 2,
        p_barrier: 0,
        p_batch: 0,
        p_tl: 0,
        p_static: 0,
        batch_decl: false,
        rt_skew: 0,
        ..GenCfg::default()
    }
}

pub fn dense_conflict_cfg() -> GenCfg {
    GenCfg {
        universe_max: 5,
        max_reads: 3,
        max_writes: 2,
        ..GenCfg::default()
    }
}

pub fn sched_cfg() -> GenCfg {
    GenCfg {
        max_ops: 12,
        max_inner_ops: 4,
        universe_max: 6,
        tl_in_batch: false,
        max_depth: 2,
        ..GenCfg::default()
    }
}

pub fn tiny_cfg() -> GenCfg {
    GenCfg {
        max_ops: 5,
        universe_max: 4,
        max_reads: 2,
        max_writes: 1,
        p_batch: 0,
        p_tl: 0,
        p_static: 2,
        ..GenCfg::default()
    }
}

#[allow(clippy::too_many_arguments)]
pub fn sp(
    property: &'static str,
    name: &'static str,
    rule: &'static str,
    cfg: GenCfg,
    wants: Vec<p_sched::Want>,
    entries: Vec<exec::Entry>,
    strategies: Vec<u8>,
    nontrivial: fn(&build::Built) -> bool,
) -> p_sched::SchedProp {
    p_sched::SchedProp {
        property,
        name,
        rule,
        cfg,
        wants,
        entries,
        thread_choices: vec![1, 2, 3, 4, 6, 8, 16],
        strategies,
        max_repeats: 3,
        nontrivial,
        dfs_limit: 3000,
    }
}

/// the asynchronous dispatcher under the window oracles, registered under another property
pub fn async_sub(property: &'static str, name: &'static str, cfg: GenCfg) -> Sub {
    Sub {
        max_lanes: 4,
        ..sub(
            p_async::C15 {
                cfg,
                property,
                name,
            },
            400,
            20_000,
        )
    }
}

pub fn async_cfg() -> GenCfg {
    GenCfg {
        max_ops: 10,
        max_inner_ops: 3,
        universe_max: 6,
        max_depth: 2,
        tl_in_batch: false,
        p_tl: 1,
        ..GenCfg::default()
    }
}

pub fn sched_sub(p: p_sched::SchedProp, quick: usize, thorough: usize) -> Sub {
    Sub {
        p: Box::new(p),
        quick,
        thorough,
        max_lanes: 8,
    }
}

pub fn subs_for(id: &str) -> Vec<Sub> {
    match id {
        "C18" => vec![
            sub(
                p_builder::C18 {
                    name: "c18-general",
                    rule: "general registration sequences (systems, batches, thread-locals, barriers, empty and odd names); in half of the cases one ill-formed call is planted at a generated position of a generated (possibly nested) builder: dependency on an unknown name, on \"\", on the system's own name, on a later system, on a name of the parent builder, or a reused non-empty name; oracle: every call runs under catch_unwind, well-formed calls and build() never panic, the planted call panics at that very call with a string payload quoting the name; non-trivial = planted case, or well-formed with >= 8 systems; distinct = hash of (plan, plant)",
                    cfg: GenCfg::default(),
                    stream_len: 600,
                    plant: true,
                },
                200_000,
                4_000_000,
            ),
            sub(
                p_builder::C18 {
                    name: "c18-funnel",
                    rule: "funnel class: <= 3 resources, single-resource writers, running-time hints 1..5, up to 40 systems, so that many systems conflict with exactly one group and join it until it is full",
                    cfg: funnel_cfg(),
                    stream_len: 500,
                    plant: false,
                },
                200_000,
                4_000_000,
            ),
            sub(
                p_builder::C18 {
                    name: "c18-long",
                    rule: "long sequences: up to 400 registrations",
                    cfg: GenCfg {
                        max_ops: 400,
                        universe_max: 6,
                        ..GenCfg::default()
                    },
                    stream_len: 6000,
                    plant: true,
                },
                3_000,
                80_000,
            ),
            sub(
                p_builder::C18 {
                    name: "c18-very-wide",
                    rule: "very-wide class: up to 150 mostly independent systems over 96 resources, no barriers: stages with more than 64 groups, then systems that conflict with or depend on members of late groups; every call well-formed or with one planted ill-formed call",
                    cfg: very_wide_cfg(),
                    stream_len: 2500,
                    plant: true,
                },
                4_000,
                100_000,
            ),
        ],
        "C19" => vec![
            sub(
                p_builder::C19 {
                    cfg: GenCfg {
                        p_static: 0,
                        batch_decl: false,
                        ..GenCfg::default()
                    },
                    name: "c19-metamorphic",
                },
                120_000,
                3_000_000,
            ),
            sub(
                p_builder::C19 {
                    // few writers, up to 6 reads per system: groups whose accumulated read lists sit
                    // at and beyond the inline capacity, where the concrete id order could matter
                    cfg: GenCfg {
                        max_ops: 40,
                        universe_max: 10,
                        max_reads: 6,
                        max_writes: 1,
                        write_chance: 4,
                        rt_skew: 8,
                        p_dep: 0,
                        p_barrier: 0,
                        p_batch: 0,
                        p_tl: 0,
                        p_static: 0,
                        batch_decl: false,
                        ..GenCfg::default()
                    },
                    name: "c19-metamorphic-heavy-readers",
                },
                80_000,
                2_000_000,
            ),
            sub(
                p_builder::C19 {
                    // dependency lists of up to 7 distinct names, renamed so that name order and
                    // registration order disagree
                    cfg: GenCfg {
                        batch_decl: false,
                        ..wide_cfg()
                    },
                    name: "c19-metamorphic-wide",
                },
                80_000,
                2_000_000,
            ),
            sub(
                p_builder::C19 {
                    // write lists of up to 14 entries: past the inline capacity, in declared order
                    cfg: heavy_writers_cfg(),
                    name: "c19-metamorphic-heavy-writers",
                },
                60_000,
                1_500_000,
            ),
            sub(
                p_builder::C19 {
                    // up to 95 distinct resources in one builder
                    cfg: many_resources_cfg(),
                    name: "c19-metamorphic-many-resources",
                },
                40_000,
                1_000_000,
            ),
        ],
        "C20" => vec![
            sub(
                LayoutProp {
                    capture_debug: true,
                    ..lp(
                        "C20",
                        "c20-printed",
                        "general plans with unnamed systems (1/8), odd names with spaces, dashes and slashes incl. names that sanitise to the same text (1/8), batches (every nested builder is formatted too), empty builders, and rejected duplicate-name registration attempts that the caller catches before going on (1/16 of the ops); oracle: {:?} does not panic, parses as seq![par![seq![name,]]], has the shape of the executed plan and names the system that really runs at each (stage, group, position), placeholder for unnamed; non-trivial = a builder with >= 2 systems; distinct = plan hash",
                        GenCfg {
                            p_odd_name: 4,
                            p_unnamed: 3,
                            p_rejected: 1,
                            ..GenCfg::default()
                        },
                        600,
                        p_builder::o_c20,
                    )
                },
                200_000,
                4_000_000,
            ),
        ],
        "C07" => vec![sub(
            lp(
                "C07",
                "c07-layout-big-inner",
                "batches with large inner builders (up to 16 inner registrations with up to 6 reads each, barriers inside the batch 3/16): inner groups whose accumulated access lists exceed the inline capacities, sealed by inner barriers",
                GenCfg {
                    max_ops: 8,
                    max_inner_ops: 16,
                    p_batch: 5,
                    p_barrier: 3,
                    max_reads: 6,
                    max_writes: 2,
                    universe_max: 14,
                    max_depth: 2,
                    tl_in_batch_access: false,
                    ..GenCfg::default()
                },
                1200,
                p_layout::o_c07,
            ),
            60_000,
            1_500_000,
        ), sub(
            lp(
                "C07",
                "c07-layout",
                "outer plans with batches (3/16 of the ops, nesting <= 3, controller declarations from 13 static shapes incl. (), read-only, write-only, mixed; custom controllers dispatching 0..3 times and shred's MultiDispatcher); the batch's access is computed by the harness itself as the union of the controller declaration and every ordinary system inside at any depth; oracle A: isolation, dependency, barrier and no-needless-serialisation predicates on the outer executed layout with that union, and the same predicates recursively on every inner layout; non-trivial = an outer system that conflicts with a batch only through an inner system or only through the controller's declared data",
                GenCfg {
                    p_batch: 3,
                    universe_max: 6,
                    tl_in_batch_access: false,
                    ..GenCfg::default()
                },
                700,
                p_layout::o_c07,
            ),
            200_000,
            3_000_000,
        )],
        "C01" => vec![
            sub(
                lp(
                    "C01",
                    "c01-layout-very-wide",
                    "very-wide class: up to 150 mostly independent systems over 96 resources without barriers, i.e. stages with more than 64 groups, followed by systems that conflict with or depend on members of the late groups",
                    very_wide_cfg(),
                    2500,
                    p_layout::o_c01,
                ),
                4_000,
                100_000,
            ),
            sub(
                lp(
                    "C01",
                    "c01-layout-long",
                    "long class: up to 150 registrations per builder (system ids beyond 64 and 128)",
                    GenCfg {
                        universe_max: 10,
                        ..long_cfg()
                    },
                    2500,
                    p_layout::o_c01,
                ),
                6_000,
                150_000,
            ),
            sub(
                lp(
                    "C01",
                    "c01-layout-heavy-writers",
                    "heavy-writer class: up to 14 writes per system (write lists past the inline capacity of 10, kept in declared order) over up to 40 of 96 resources",
                    heavy_writers_cfg(),
                    900,
                    p_layout::o_c01,
                ),
                60_000,
                1_500_000,
            ),
            sub(
                lp(
                    "C01",
                    "c01-layout-many-resources",
                    "many-resources class: up to 95 distinct resources (8 types x 12 dynamic ids spread over the u64 range) in one builder of up to 60 systems",
                    many_resources_cfg(),
                    900,
                    p_layout::o_c01,
                ),
                40_000,
                1_000_000,
            ),
            sub(
                lp(
                    "C01",
                    "c01-layout-heavy-readers",
                    "heavy-reader class: <= 8 resources, up to 6 reads and at most 1 write per system, up to 40 systems, no dependencies: groups whose accumulated read lists (with duplicates) outgrow the inline capacity of 12 and keep growing",
                    GenCfg {
                        max_ops: 40,
                        universe_max: 10,
                        max_reads: 6,
                        max_writes: 1,
                        write_chance: 4,
                        rt_skew: 8,
                        p_dep: 0,
                        p_barrier: 0,
                        p_batch: 0,
                        p_tl: 0,
                        p_static: 0,
                        ..GenCfg::default()
                    },
                    900,
                    p_layout::o_c01,
                ),
                150_000,
                3_000_000,
            ),
            sub(
                lp(
                    "C01",
                    "c01-layout-wide",
                    "wide class (stages of more than 6 groups, groups with more than 12 accumulated reads, dependency lists of up to 7 names)",
                    GenCfg {
                        max_writes: 2,
                        universe_max: 20,
                        ..wide_cfg()
                    },
                    900,
                    p_layout::o_c01,
                ),
                100_000,
                2_000_000,
            ),
            sub(
                lp(
                    "C01",
                    "c01-layout",
                    "general plans; oracle A: in the executed layout no two systems in different groups of one stage conflict under the reference conflict relation (batch = union of controller declaration and everything inside); non-trivial = a stage with >= 2 groups and >= 1 conflicting pair; distinct = plan hash",
                    GenCfg::default(),
                    600,
                    p_layout::o_c01,
                ),
                200_000,
                3_000_000,
            ),
            sub(
                lp(
                    "C01",
                    "c01-layout-dense",
                    "conflict-dense plans (universe <= 5 resources)",
                    dense_conflict_cfg(),
                    600,
                    p_layout::o_c01,
                ),
                200_000,
                3_000_000,
            ),
        ],
        "C02" => vec![sub(
            lp(
                "C02",
                "c02-layout-very-long",
                "very long class: up to 800 registrations over 1..2 resources (nearly every system opens a new stage: more than 256 stages), half of them with 1..2 dependencies on earlier systems",
                GenCfg {
                    max_ops: 800,
                    universe_max: 2,
                    max_reads: 1,
                    max_writes: 1,
                    p_dep: 8,
                    max_deps: 2,
                    p_barrier: 0,
                    p_batch: 0,
                    p_tl: 0,
                    p_static: 0,
                    p_unnamed: 0,
                    rt_skew: 0,
                    ..GenCfg::default()
                },
                8000,
                p_layout::o_c02,
            ),
            150,
            4_000,
        ), sub(
            lp(
                "C02",
                "c02-layout-very-wide",
                "very-wide class with dependencies: up to 150 mostly independent systems (stages with more than 64 groups), a quarter of them depending on earlier ones",
                GenCfg {
                    p_dep: 4,
                    ..very_wide_cfg()
                },
                2500,
                p_layout::o_c02,
            ),
            4_000,
            100_000,
        ), sub(
            lp(
                "C02",
                "c02-layout-long",
                "long class: up to 150 registrations per builder (system ids beyond 64 and 128) with dependencies on early and late systems over mostly unrelated resources",
                long_cfg(),
                2500,
                p_layout::o_c02,
            ),
            6_000,
            150_000,
        ), sub(
            lp(
                "C02",
                "c02-layout-wide",
                "wide class: dependency lists of up to 7 (distinct and repeated) names over up to 30 systems",
                GenCfg {
                    p_dep: 10,
                    ..wide_cfg()
                },
                900,
                p_layout::o_c02,
            ),
            100_000,
            2_000_000,
        ), sub(
            lp(
                "C02",
                "c02-layout",
                "dependency-heavy plans over systems that mostly share no resource, 1/16 of the ops a registration attempt that is rejected by a panic (reused name, or a dependency on a name never registered), caught by the caller who goes on using the builder; oracle A: every declared edge A -> B has A in an earlier stage, or earlier in the same group; non-trivial = >= 1 edge whose endpoints do not conflict on resources",
                GenCfg {
                    p_dep: 11,
                    max_deps: 4,
                    universe_max: 12,
                    max_reads: 1,
                    max_writes: 1,
                    p_barrier: 1,
                    p_rejected: 1,
                    ..GenCfg::default()
                },
                600,
                p_layout::o_c02,
            ),
            250_000,
            4_000_000,
        )],
        "C03" => vec![sub(
            p_builder::C03Noop {
                cfg: GenCfg {
                    p_barrier: 5,
                    universe_max: 8,
                    ..GenCfg::default()
                },
            },
            100_000,
            2_000_000,
        ), sub(
            lp(
                "C03",
                "c03-layout",
                "plans with barriers at arbitrary positions (leading, trailing, doubled, inside batch builders, 1/4 of the ops) over mostly unrelated systems, 1/16 of the ops a rejected registration attempt that the caller catches before going on; oracle A: every system of an earlier barrier segment is in a strictly earlier stage, thread-local systems stay in the thread-local list; non-trivial = unrelated systems on both sides of an effective barrier",
                GenCfg {
                    p_barrier: 4,
                    p_dep: 2,
                    p_rejected: 1,
                    universe_max: 12,
                    max_reads: 1,
                    max_writes: 1,
                    ..GenCfg::default()
                },
                600,
                p_layout::o_c03,
            ),
            250_000,
            4_000_000,
        ), sub(
            lp(
                "C03",
                "c03-layout-very-long",
                "very long class: up to 2000 ops, half of them barriers, i.e. often more than 256 effective barriers in one builder",
                GenCfg {
                    max_ops: 2000,
                    p_barrier: 8,
                    p_dep: 1,
                    p_batch: 0,
                    p_static: 0,
                    p_tl: 0,
                    universe_max: 24,
                    max_reads: 1,
                    max_writes: 1,
                    ..GenCfg::default()
                },
                16000,
                p_layout::o_c03,
            ),
            200,
            5_000,
        ), sub(
            lp(
                "C03",
                "c03-layout-wide",
                "wide class with barriers: dependency lists of up to 7 (distinct and repeated) names, every fourth list an entry-for-entry copy of the previous one, so that the same long list occurs on both sides of a barrier",
                GenCfg {
                    p_barrier: 3,
                    p_dep: 9,
                    p_copy_deps: 4,
                    ..wide_cfg()
                },
                900,
                p_layout::o_c03,
            ),
            60_000,
            1_500_000,
        ), sub(
            lp(
                "C03",
                "c03-layout-long",
                "long class: up to 150 registrations of mostly unrelated systems with a barrier after every 5th op on average (dozens of effective barriers in one builder)",
                GenCfg {
                    max_ops: 150,
                    p_barrier: 3,
                    p_dep: 1,
                    p_batch: 0,
                    p_static: 0,
                    universe_max: 24,
                    max_reads: 1,
                    max_writes: 1,
                    ..GenCfg::default()
                },
                1500,
                p_layout::o_c03,
            ),
            20_000,
            500_000,
        )],
        "C04" => vec![
            sub(
                lp(
                    "C04",
                    "c04-layout",
                    "general plans; oracle: shape-hook total == number registered == number identified, every system exactly once in the executed lists, thread-local list in registration order; non-trivial = a group of >= 3 or >= 8 stages",
                    GenCfg::default(),
                    600,
                    p_layout::o_c04,
                ),
                150_000,
                2_500_000,
            ),
            sub(
                lp(
                    "C04",
                    "c04-layout-funnel",
                    "funnel class (groups filled to capacity)",
                    funnel_cfg(),
                    500,
                    p_layout::o_c04,
                ),
                150_000,
                2_500_000,
            ),
        ],
        "C10" => vec![
            sub(
                lp(
                    "C10",
                    "c10-layout-long",
                    "long class: up to 150 registrations per builder (system ids beyond 64 and 128), dependencies on late systems, barriers",
                    GenCfg {
                        max_ops: 150,
                        universe_max: 10,
                        max_reads: 2,
                        max_writes: 1,
                        p_dep: 6,
                        max_deps: 3,
                        p_batch: 0,
                        p_static: 0,
                        ..GenCfg::default()
                    },
                    2500,
                    p_layout::o_c10,
                ),
                6_000,
                150_000,
            ),
            sub(
                lp(
                    "C10",
                    "c10-layout-many-resources",
                    "many-resources class: up to 95 distinct resources in one builder of up to 60 systems",
                    many_resources_cfg(),
                    900,
                    p_layout::o_c10,
                ),
                40_000,
                1_000_000,
            ),
            sub(
                lp(
                    "C10",
                    "c10-layout-wide",
                    "wide class: up to 30 systems over up to 28 resources with up to 5 reads each and dependency lists of up to 7 names, so that stages exceed every inline capacity (more than 6 groups, more than 12 accumulated reads, more than 4 dependencies)",
                    wide_cfg(),
                    900,
                    p_layout::o_c10,
                ),
                100_000,
                2_000_000,
            ),
            sub(
                LayoutProp {
                    property: "C10",
                    name: "c10-layout",
                    rule: "plans from the general generator (all access patterns, hints, barriers, dependency lists incl. duplicates and targets in front of a barrier, batches); non-trivial = a system skipped >= 1 stage or a barrier segment of >= 3 pairwise compatible dependency-free systems; distinct = hash of the plan JSON",
                    cfg: GenCfg::default(),
                    stream_len: 600,
                    oracle: p_layout::o_c10,
                    capture_debug: false,
                },
                300_000,
                6_000_000,
            ),
            sub(
                LayoutProp {
                    property: "C10",
                    name: "c10-layout-deps",
                    rule: "dependency-heavy, conflict-light plans (deps on 3/4 of the systems, up to 4 names each, duplicates allowed, barriers 1/8, and rejected duplicate-name registration attempts that the caller catches before going on, 1/16)",
                    cfg: GenCfg {
                        p_dep: 12,
                        max_deps: 4,
                        p_barrier: 2,
                        max_reads: 1,
                        max_writes: 1,
                        universe_max: 12,
                        p_static: 0,
                        p_batch: 0,
                        p_tl: 0,
                        p_unnamed: 1,
                        p_rejected: 1,
                        ..GenCfg::default()
                    },
                    stream_len: 400,
                    oracle: p_layout::o_c10,
                    capture_debug: false,
                },
                300_000,
                6_000_000,
            ),
        ],
        _ => vec![],
    }
}

pub fn sched_subs_for(id: &str) -> Vec<Sub> {
    use exec::Entry::*;
    use p_sched::Want;
    match id {
        "C01" => vec![
            sched_sub(
                sp(
                    "C01",
                    "c01-sched",
                    "plans (<= 12 ops, static and dynamic ids, deps, hints, barriers, nested batches) x schedule (random linear extension of the enabled fetch/release events | maximal overlap | free run with jitter when the pool is smaller than the plan's concurrency) x pool size {1,2,3,4,6,8,16} x entry {dispatch, dispatch_par, dispatch_seq} x 1..3 repeated dispatches; oracle B: no panic escapes, fetch..release windows of conflicting systems are disjoint in the observed history; non-trivial = a stage with >= 2 groups and >= 1 conflicting pair",
                    sched_cfg(),
                    vec![Want::Isolation, Want::Counts],
                    vec![Dispatch, Par, SeqTl],
                    vec![0, 1, 1, 2],
                    p_sched::nt_isolation,
                ),
                8_000,
                300_000,
            ),
            sched_sub(
                p_sched::SchedProp {
                    max_repeats: 1,
                    thread_choices: vec![4, 8],
                    ..sp(
                        "C01",
                        "c01-sched-dfs",
                        "tiny plans (<= 5 systems): ALL interleavings of the enabled fetch/release events (depth-first over decision sequences, cut off at 3000 runs per plan)",
                        tiny_cfg(),
                        vec![Want::Isolation],
                        vec![Par],
                        vec![3],
                        p_sched::nt_isolation,
                    )
                },
                60,
                2_000,
            ),
            sched_sub(
                p_sched::SchedProp {
                    max_repeats: 1,
                    thread_choices: vec![6, 8],
                    dfs_limit: 1500,
                    ..sp(
                        "C01",
                        "c01-sched-dfs-batch",
                        "tiny plans with one small batch (<= 4 outer ops, <= 2 inner systems, custom controller dispatching 1..2 times): all interleavings of the enabled fetch/release events incl. the inner dispatches (cut off at 1500 runs per plan)",
                        GenCfg {
                            max_ops: 4,
                            max_inner_ops: 2,
                            universe_max: 3,
                            p_batch: 5,
                            max_depth: 1,
                            allow_multi: false,
                            max_n: 2,
                            p_tl: 0,
                            p_static: 0,
                            ..GenCfg::default()
                        },
                        vec![Want::Isolation, Want::Counts],
                        vec![Par],
                        vec![3],
                        p_sched::nt_isolation,
                    )
                },
                40,
                1_500,
            ),
            async_sub(
                "C01",
                "c01-async",
                GenCfg {
                    universe_max: 4,
                    ..async_cfg()
                },
            ),
        ],
        "C02" => vec![sched_sub(
                p_sched::SchedProp {
                    max_repeats: 1,
                    thread_choices: vec![4, 8],
                    ..sp(
                        "C02",
                        "c02-sched-dfs",
                        "tiny dependency-heavy plans (<= 5 systems): all interleavings; Released(A) < FetchBegin(B) for every edge in each",
                        GenCfg {
                            p_dep: 10,
                            max_deps: 2,
                            universe_max: 8,
                            ..tiny_cfg()
                        },
                        vec![Want::Deps],
                        vec![Par],
                        vec![3],
                        p_sched::nt_deps,
                    )
                },
                60,
                2_000,
            ), async_sub(
                "C02",
                "c02-async",
                GenCfg {
                    p_dep: 11,
                    max_deps: 3,
                    universe_max: 12,
                    max_reads: 1,
                    max_writes: 1,
                    ..async_cfg()
                },
            ), sched_sub(
            sp(
                "C02",
                "c02-sched",
                "dependency-heavy plans whose systems mostly share no resource x schedule x pool size x entry; oracle B: Released(A) < FetchBegin(B) for every declared edge in every dispatch (schedules hold A at its release gate while everything else enabled proceeds); non-trivial = an edge whose endpoints do not conflict",
                GenCfg {
                    p_dep: 11,
                    max_deps: 3,
                    universe_max: 12,
                    max_reads: 1,
                    max_writes: 1,
                    ..sched_cfg()
                },
                vec![Want::Deps, Want::Counts],
                vec![Dispatch, Par, SeqTl],
                vec![0, 1, 2],
                p_sched::nt_deps,
            ),
            8_000,
            200_000,
        )],
        "C03" => vec![sched_sub(
                p_sched::SchedProp {
                    max_repeats: 1,
                    thread_choices: vec![4, 8],
                    ..sp(
                        "C03",
                        "c03-sched-dfs",
                        "tiny plans with barriers (<= 6 ops): all interleavings; everything before a barrier released before anything after it begins in each",
                        GenCfg {
                            p_barrier: 4,
                            max_ops: 6,
                            universe_max: 8,
                            ..tiny_cfg()
                        },
                        vec![Want::Barriers],
                        vec![Par],
                        vec![3],
                        p_sched::nt_barriers,
                    )
                },
                60,
                2_000,
            ), async_sub(
                "C03",
                "c03-async",
                GenCfg {
                    p_barrier: 4,
                    universe_max: 12,
                    max_reads: 1,
                    max_writes: 1,
                    ..async_cfg()
                },
            ), sched_sub(
            sp(
                "C03",
                "c03-sched",
                "plans of mostly unrelated systems with barriers at arbitrary positions (also inside batch builders) x schedule x pool x entry; oracle B: Released(pre) < FetchBegin(post) in every dispatch; thread-local systems after everything; non-trivial = unrelated systems on both sides of an effective barrier",
                GenCfg {
                    p_barrier: 4,
                    p_dep: 1,
                    universe_max: 12,
                    max_reads: 1,
                    max_writes: 1,
                    ..sched_cfg()
                },
                vec![Want::Barriers, Want::ThreadLocal],
                vec![Dispatch, Par, SeqTl],
                vec![0, 1, 2],
                p_sched::nt_barriers,
            ),
            8_000,
            200_000,
        )],
        "C04" => vec![
          Sub {
            max_lanes: 8,
            ..sub(
                p_misc::C04Calls {
                    cfg: GenCfg {
                        p_batch: 3,
                        p_tl: 2,
                        tl_in_batch: true,
                        tl_in_batch_access: false,
                        max_ops: 14,
                        ..sched_cfg()
                    },
                },
                6_000,
                200_000,
            )
          },
          Sub {
            max_lanes: 8,
            ..sub(p_misc::C04BigPlan, 160, 4_000)
          },
          Sub {
            max_lanes: 4,
            ..sub(
                p_misc::C04Two {
                    cfg: GenCfg {
                        p_batch: 2,
                        p_tl: 1,
                        tl_in_batch: true,
                        tl_in_batch_access: false,
                        max_ops: 10,
                        ..sched_cfg()
                    },
                },
                2_000,
                60_000,
            )
          },
          sched_sub(
            p_sched::SchedProp {
                max_repeats: 3,
                thread_choices: vec![1, 2, 3, 5, 7, 8, 15, 16],
                ..sp(
                    "C04",
                    "c04-exec-wide",
                    "wide class (stages of 7..30 groups) on pools of 1, 2, 3, 5, 7, 8, 15, 16 threads, free run with jitter: run counters after 1..3 calls",
                    wide_cfg(),
                    vec![Want::Counts, Want::Isolation, Want::Deps],
                    vec![Dispatch, Par, SeqTl],
                    vec![2],
                    p_sched::nt_counts,
                )
            },
            3_000,
            100_000,
          ),
          sched_sub(
            p_sched::SchedProp {
                max_repeats: 4,
                ..sp(
                    "C04",
                    "c04-exec",
                    "plans with nested batches (custom controller dispatching 0..3 times, shred's MultiDispatcher planning 0..3) and thread-local systems x pool size x entry {dispatch, dispatch_par, dispatch_seq(+thread_local)} x 1..4 repeated calls; oracle: run counter of every ordinary system == number of calls, thread-local == calls that run them, inner systems == calls x product of the enclosing controllers' dispatch counts; non-trivial = a group of >= 3, >= 8 stages, or a batch dispatching >= 2 times",
                    GenCfg {
                        p_batch: 3,
                        tl_in_batch: true,
                        tl_in_batch_access: false,
                        max_ops: 16,
                        ..sched_cfg()
                    },
                    vec![Want::Counts],
                    vec![Dispatch, Par, SeqTl, Seq],
                    vec![2, 0],
                    p_sched::nt_counts,
                )
            },
            8_000,
            200_000,
          ),
        ],
        "C05" => vec![
            sched_sub(
                p_sched::SchedProp {
                    thread_choices: vec![1, 2, 3, 4, 6, 8, 16, 0],
                    ..sp(
                    "C05",
                    "c05-differential",
                    "plans whose systems apply order-sensitive updates (each written cell := h(old, system, digest of everything read, own state)) x schedule x pool size (1..16 threads, or no pool given: the default pool, free run) x 1..3 repeated dispatches; oracle: world contents and every system's state after dispatch/dispatch_par under the generated schedule == after dispatch_seq of the same dispatcher on an identical world; batches may hold thread-local systems (which access nothing but keep their own state); non-trivial = >= 2 groups side by side and a resource written by >= 2 systems",
                    GenCfg {
                        tl_in_batch: true,
                        tl_in_batch_access: false,
                        ..sched_cfg()
                    },
                    vec![Want::Differential],
                    vec![Dispatch, Par],
                    vec![0, 1, 2],
                    p_sched::nt_differential,
                )
                },
                8_000,
                300_000,
            ),
            sched_sub(
                p_sched::SchedProp {
                    thread_choices: vec![2, 4, 8, 16],
                    ..sp(
                        "C05",
                        "c05-differential-large",
                        "large plans from the general generator (up to 24 ops, nested batches with up to 16 inner systems, up to 6 reads / 3 writes per system), free run with jitter and maximal overlap on pools of 2..16 threads, compared with the sequential result",
                        GenCfg {
                            max_inner_ops: 16,
                            max_reads: 6,
                            universe_max: 12,
                            p_batch: 2,
                            p_barrier: 2,
                            tl_in_batch_access: false,
                            ..GenCfg::default()
                        },
                        vec![Want::Differential],
                        vec![Dispatch, Par],
                        vec![2, 2, 1],
                        p_sched::nt_differential,
                    )
                },
                12_000,
                400_000,
            ),
            sched_sub(
                p_sched::SchedProp {
                    max_repeats: 1,
                    thread_choices: vec![4, 8],
                    ..sp(
                        "C05",
                        "c05-dfs",
                        "tiny plans: all interleavings, each compared with the sequential result",
                        tiny_cfg(),
                        vec![Want::Differential],
                        vec![Par],
                        vec![3],
                        p_sched::nt_differential,
                    )
                },
                60,
                2_000,
            ),
            sched_sub(
                p_sched::SchedProp {
                    thread_choices: vec![2, 4, 8, 16],
                    max_repeats: 2,
                    ..sp(
                        "C05",
                        "c05-differential-heavy-readers",
                        "heavy-reader class (<= 10 resources, up to 6 reads and at most 1 write per system, up to 40 systems, skewed running-time hints): groups whose accumulated access lists outgrow every inline capacity, free run with jitter and maximal overlap, compared with the sequential result",
                        GenCfg {
                            max_ops: 40,
                            universe_max: 10,
                            max_reads: 6,
                            max_writes: 1,
                            write_chance: 4,
                        rt_skew: 8,
                            p_dep: 0,
                            p_barrier: 0,
                            p_batch: 0,
                            p_tl: 0,
                            p_static: 0,
                            ..GenCfg::default()
                        },
                        vec![Want::Differential],
                        vec![Dispatch, Par],
                        vec![2, 1],
                        p_sched::nt_differential,
                    )
                },
                40_000,
                250_000,
            ),
            sched_sub(
                p_sched::SchedProp {
                    thread_choices: vec![2, 4, 8, 16],
                    max_repeats: 2,
                    ..sp(
                        "C05",
                        "c05-differential-many-resources",
                        "many-resources class (up to 95 distinct resources in one builder of up to 60 systems), free run with jitter and maximal overlap, compared with the sequential result",
                        many_resources_cfg(),
                        vec![Want::Differential],
                        vec![Dispatch, Par],
                        vec![2, 1],
                        p_sched::nt_differential,
                    )
                },
                6_000,
                60_000,
            ),
        ],
        "C13" => vec![sub(
            p_misc::C13 {
                cfg: GenCfg {
                    max_ops: 10,
                    p_static: 10,
                    p_batch: 3,
                    p_tl: 2,
                    ..GenCfg::default()
                },
            },
            150_000,
            2_500_000,
        )],
        "C14" => vec![
            Sub {
                max_lanes: 8,
                ..sub(
                    p_misc::C14 {
                        cfg: GenCfg {
                            max_ops: 8,
                            max_inner_ops: 3,
                            universe_max: 4,
                            max_depth: 2,
                            allow_multi: false,
                            tl_in_batch: false,
                            p_tl: 2,
                            p_batch: 2,
                            ..GenCfg::default()
                        },
                        pairs: false,
                        name: "c14-faults",
                    },
                    1_200,
                    40_000,
                )
            },
            Sub {
                max_lanes: 8,
                ..sub(
                    p_misc::C14 {
                        cfg: GenCfg {
                            max_ops: 8,
                            universe_max: 6,
                            max_reads: 1,
                            max_writes: 1,
                            p_batch: 1,
                            max_depth: 1,
                            allow_multi: false,
                            tl_in_batch: false,
                            ..GenCfg::default()
                        },
                        pairs: true,
                        name: "c14-pairs",
                    },
                    600,
                    20_000,
                )
            },
            Sub {
                max_lanes: 8,
                ..sub(
                    p_misc::C14 {
                        // dependency chains over mostly unrelated systems with skewed hints: dependents
                        // are packed behind their dependency in one group
                        cfg: GenCfg {
                            max_ops: 8,
                            universe_max: 12,
                            max_reads: 1,
                            max_writes: 1,
                            p_dep: 9,
                            max_deps: 1,
                            p_batch: 0,
                            p_tl: 0,
                            p_barrier: 0,
                            p_static: 0,
                            ..GenCfg::default()
                        },
                        pairs: false,
                        name: "c14-groups",
                    },
                    1_200,
                    40_000,
                )
            },
            Sub {
                max_lanes: 4,
                ..sub(
                    p_misc::C14 {
                        // wide stages (more than 6 groups) that also hold groups of several systems
                        cfg: GenCfg {
                            max_ops: 26,
                            universe_max: 32,
                            max_reads: 1,
                            max_writes: 1,
                            p_dep: 7,
                            max_deps: 1,
                            p_batch: 0,
                            p_tl: 0,
                            p_barrier: 0,
                            p_static: 0,
                            ..GenCfg::default()
                        },
                        pairs: false,
                        name: "c14-wide",
                    },
                    300,
                    10_000,
                )
            },
            Sub {
                max_lanes: 8,
                ..sub(
                    p_misc::C14 {
                        // batches that dispatch several times, driven by the library's MultiDispatcher
                        // or a hand-written controller, nested: faults in later inner dispatches
                        cfg: GenCfg {
                            max_ops: 6,
                            max_inner_ops: 3,
                            universe_max: 4,
                            max_depth: 2,
                            allow_multi: true,
                            // thread-local systems inside batches too (without access of their own:
                            // known finding KF2 is about their access, not about panics)
                            tl_in_batch: true,
                            tl_in_batch_access: false,
                            p_tl: 3,
                            p_batch: 6,
                            ..GenCfg::default()
                        },
                        pairs: false,
                        name: "c14-batches",
                    },
                    600,
                    20_000,
                )
            },
        ],
        "C14g" => vec![],
        "C17" => vec![
            sub(p_meta::C17, 150_000, 4_000_000),
            Sub {
                max_lanes: 2,
                ..sub(p_meta::C17Conc, 1_500, 60_000)
            },
        ],
        "C15" => vec![Sub {
            max_lanes: 4,
            ..sub(
                p_async::C15 {
                    cfg: GenCfg {
                        max_ops: 10,
                        max_inner_ops: 3,
                        universe_max: 6,
                        max_depth: 2,
                        tl_in_batch: false,
                        p_tl: 2,
                        ..GenCfg::default()
                    },
                    property: "C15",
                    name: "c15-async",
                },
                1_200,
                40_000,
            )
        }, async_sub(
            "C15",
            "c15-async-wide",
            GenCfg {
                max_ops: 16,
                ..wide_cfg()
            },
        ), Sub {
            max_lanes: 4,
            ..sub(
                // the thread-local clause after a thread-local system panicked inside wait()
                p_misc::C12AfterPanic {
                    cfg: GenCfg {
                        p_tl: 4,
                        max_ops: 10,
                        tl_in_batch: false,
                        allow_multi: false,
                        ..GenCfg::default()
                    },
                    property: "C15",
                    name: "c15-after-thread-local-panic",
                    only_async: true,
                },
                3_000,
                100_000,
            )
        }, Sub {
            max_lanes: 4,
            ..sub(p_async::C15Many, 3, 24)
        }],
        "C16" => vec![
            Sub {
                max_lanes: 8,
                ..sub(p_parseq::C16, 40_000, 1_500_000)
            },
            Sub {
                max_lanes: 1,
                ..sub(p_parseq::C16Static, 600, 20_000)
            },
        ],
        "C09" => vec![sub(p_world::C09, 150_000, 4_000_000)],
        "C08" => vec![
            sub(p_world::C08, 150_000, 4_000_000),
            Sub {
                max_lanes: 3,
                ..sub(p_world_conc::C08Conc, 3_000, 150_000)
            },
        ],
        "C11" => vec![Sub {
            max_lanes: 1,
            ..sub(p_misc::C11, 600, 20_000)
        }],
        "C07" => vec![sched_sub(
            sp(
                "C07",
                "c07-sched",
                "plans with batches (nesting <= 2 under schedule control, thread-local systems inside batches with their own access) x schedule x pool x {dispatch, dispatch_par, dispatch_seq}; oracle B: no escaping panic, windows of an outer system and of a batch (or anything inside it) that conflict are disjoint, inner systems are isolated / ordered among themselves and run exactly once per inner dispatch, and every inner dispatch (its thread-local systems included) is complete before the controller's next one starts anything; non-trivial = an outer system conflicting with a batch only through an inner system or only through controller data",
                GenCfg {
                    p_batch: 4,
                    tl_in_batch: true,
                    p_tl: 1,
                    ..sched_cfg()
                },
                vec![Want::Isolation, Want::Deps, Want::Barriers, Want::Counts, Want::InnerSequence],
                vec![Dispatch, Par, SeqTl],
                vec![0, 1, 1, 2],
                p_sched::nt_batch,
            ),
            8_000,
            300_000,
        )],
        "C12" => vec![
          Sub {
            max_lanes: 4,
            ..sub(
                // the asynchronous dispatcher's thread-local clause: only inside wait(), on the
                // calling thread, once per wait (same machinery as C15, thread-local-heavy plans)
                p_async::C15 {
                    cfg: GenCfg {
                        max_ops: 8,
                        max_inner_ops: 3,
                        universe_max: 6,
                        max_depth: 1,
                        tl_in_batch: false,
                        p_tl: 5,
                        ..GenCfg::default()
                    },
                    property: "C12",
                    name: "c12-async-wait",
                },
                400,
                20_000,
            )
          },
          sub(
            p_misc::C12AfterPanic {
                cfg: GenCfg {
                    p_tl: 4,
                    max_ops: 10,
                    tl_in_batch: false,
                    allow_multi: false,
                    ..GenCfg::default()
                },
                property: "C12",
                name: "c12-after-panic",
                only_async: false,
            },
            15_000,
            500_000,
          ),
          sub(
            p_misc::C12Sendable {
                cfg: GenCfg {
                    p_tl: 1,
                    max_ops: 12,
                    tl_in_batch_access: false,
                    ..GenCfg::default()
                },
            },
            60_000,
            1_200_000,
          ),
          sched_sub(
            sp(
                "C12",
                "c12-sched",
                "plans mixing 0..5 really !Send thread-local systems with ordinary systems, barriers and batches (builders with thread-local systems are also passed to add_batch) x schedule x pool x {dispatch, dispatch_seq+dispatch_thread_local}; oracle: every thread-local run is on the dispatching thread and not on a pool worker, begins after every other system of that dispatch released, runs in registration order one at a time; non-trivial = >= 2 thread-local and >= 2 ordinary systems at top level",
                GenCfg {
                    p_tl: 4,
                    tl_in_batch: true,
                    p_batch: 2,
                    ..sched_cfg()
                },
                vec![Want::ThreadLocal, Want::Counts],
                vec![Dispatch, SeqTl, RunNowTrait],
                vec![0, 1, 2],
                p_sched::nt_thread_local,
            ),
            8_000,
            200_000,
          ),
        ],
        _ => vec![],
    }
}

pub fn all_subs_for(id: &str) -> Vec<Sub> {
    let mut v = subs_for(id);
    v.extend(sched_subs_for(id));
    v
}

