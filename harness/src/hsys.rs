//! Self-identifying harness systems, controllers and thread-local systems, and the shared
//! per-case context they report to.

use std::marker::PhantomData;
use std::rc::Rc;
use std::sync::atomic::{AtomicBool, AtomicU32, AtomicU64, AtomicU8, AtomicUsize, Ordering::SeqCst};
use std::sync::{Arc, Mutex};
use std::time::{Duration, Instant};

use shred::{
    Accessor, AccessorCow, BatchController, Dispatcher, DynamicSystemData, MultiDispatchController,
    ResourceId, RunNow, RunningTime, StaticAccessor, System, World,
};

use crate::conductor::Conductor;
use crate::fam::{Fam, View};
use crate::plan::Flat;
use crate::res::{self, mix, Res, RG, WG};

#[derive(Clone, Copy, Debug, PartialEq, Eq, serde::Serialize)]
pub enum EvKind {
    Begin,
    Fetched,
    PreRelease,
    Released,
    CtlFetched,
    CtlReleased,
    Setup,
    Dispose,
}

#[derive(Clone, Debug, serde::Serialize)]
pub struct Event {
    pub t: u64,
    pub sys: usize,
    pub kind: EvKind,
    pub thread: u64,
    /// rayon::current_thread_index(), -1 when not on a pool worker
    pub worker: i32,
    /// serial number of the top-level dispatch call this event belongs to
    pub call: u32,
}

/// payload of injected panics (C14)
#[derive(Debug, Clone, PartialEq, Eq)]
pub struct HarnessFault(pub usize);

pub const PHASE_BUILD: u8 = 0;
pub const PHASE_SETUP: u8 = 1;
pub const PHASE_RUN: u8 = 2;
pub const PHASE_IDENT: u8 = 3;

pub const FAULT_NONE: u8 = 0;
pub const FAULT_BEFORE_FETCH: u8 = 1;
pub const FAULT_IN_RUN: u8 = 2;
pub const FAULT_AFTER_RELEASE: u8 = 3;

pub struct Rendezvous {
    pub members: Vec<usize>,
    pub arrived: AtomicUsize,
    pub timeout_ms: AtomicU64,
    pub missed: AtomicBool,
    pub met: AtomicUsize,
}

pub struct Ctx {
    pub flat: Arc<Flat>,
    pub phase: AtomicU8,
    pub clock: AtomicU64,
    pub call: AtomicU32,
    pub log_on: AtomicBool,
    pub log: Mutex<Vec<Event>>,
    pub run: Vec<AtomicU32>,
    pub setup: Vec<AtomicU32>,
    pub dispose: Vec<AtomicU32>,
    pub state: Vec<AtomicU64>,
    pub fault: Vec<AtomicU8>,
    /// 0: the armed fault fires at the system's next run; k > 0: only in its k-th run since the
    /// counters were reset (a later inner dispatch of an enclosing batch)
    pub fault_run: Vec<AtomicU32>,
    /// spin units at begin / in run (free-run jitter)
    pub jitter_begin: Vec<AtomicU32>,
    pub jitter_run: Vec<AtomicU32>,
    /// system is held inside its k-th run (1-based) while this equals k; 0 = not held (C15)
    pub hold: Vec<AtomicU32>,
    pub holding: Vec<AtomicBool>,
    pub active: AtomicUsize,
    pub seq_inner: AtomicBool,
    /// custom batch controllers wrap every inner dispatch in `catch_unwind` and carry on
    pub ctl_catch: AtomicBool,
    /// number of panics such controllers caught
    pub ctl_caught: AtomicU32,
    pub ident: Mutex<Vec<Vec<usize>>>,
    pub shapes: Mutex<std::collections::BTreeMap<usize, (Vec<Vec<usize>>, usize)>>,
    pub cond: Conductor,
    pub rdv: Mutex<Option<Arc<Rendezvous>>>,
    /// number of inner dispatches each batch performed (sum)
    pub inner_dispatches: Vec<AtomicU32>,
    /// builder id -> `format!("{:?}", builder)` taken right before the builder is consumed
    pub debug_texts: Mutex<std::collections::BTreeMap<usize, Result<String, String>>>,
    /// format specifications under which a builder's Debug text differs from `{:?}`: (spec, text)
    pub debug_variants: Mutex<std::collections::BTreeMap<usize, Vec<(String, String)>>>,
    /// what `print_par_seq` wrote to standard output, per builder
    pub printed_texts: Mutex<std::collections::BTreeMap<usize, String>>,
}

/// bumped by the panic hook for the lane whose thread panicked: gates of that lane open at once
pub static PANIC_EPOCH: [AtomicU64; 64] = {
    #[allow(clippy::declare_interior_mutable_const)]
    const Z: AtomicU64 = AtomicU64::new(0);
    [Z; 64]
};

thread_local! {
    /// "file:line" of the most recent panic raised on this thread (set by the panic hook)
    pub static LAST_PANIC_LOC: std::cell::RefCell<String> = const { std::cell::RefCell::new(String::new()) };
}

/// lane of the current thread, from its name ("lane-<n>" or "vpool-<lane>-<size>-<i>")
pub fn lane_of_current_thread() -> Option<usize> {
    let t = std::thread::current();
    let name = t.name()?;
    let rest = name
        .strip_prefix("lane-")
        .or_else(|| name.strip_prefix("vpool-"))?;
    rest.split('-').next()?.parse::<usize>().ok().map(|l| l % 64)
}

thread_local! {
    static THREAD_NO: u64 = {
        static NEXT: AtomicU64 = AtomicU64::new(1);
        NEXT.fetch_add(1, SeqCst)
    };
}

#[cfg(feature = "par")]
fn current_worker() -> i32 {
    rayon::current_thread_index().map(|i| i as i32).unwrap_or(-1)
}
#[cfg(not(feature = "par"))]
fn current_worker() -> i32 {
    -1
}

pub fn thread_no() -> u64 {
    THREAD_NO.with(|t| *t)
}

fn av<T>(n: usize, f: impl Fn() -> T) -> Vec<T> {
    (0..n).map(|_| f()).collect()
}

impl Ctx {
    pub fn new(flat: Arc<Flat>) -> Arc<Ctx> {
        let n = flat.sys.len();
        let nb = flat.builders.len();
        Arc::new(Ctx {
            flat,
            phase: AtomicU8::new(PHASE_BUILD),
            clock: AtomicU64::new(1),
            call: AtomicU32::new(0),
            log_on: AtomicBool::new(true),
            log: Mutex::new(vec![]),
            run: av(n, || AtomicU32::new(0)),
            setup: av(n, || AtomicU32::new(0)),
            dispose: av(n, || AtomicU32::new(0)),
            state: (0..n).map(|i| AtomicU64::new(mix(77, i as u64))).collect(),
            fault: av(n, || AtomicU8::new(0)),
            fault_run: av(n, || AtomicU32::new(0)),
            jitter_begin: av(n, || AtomicU32::new(0)),
            jitter_run: av(n, || AtomicU32::new(0)),
            hold: av(n, || AtomicU32::new(0)),
            holding: av(n, || AtomicBool::new(false)),
            active: AtomicUsize::new(0),
            seq_inner: AtomicBool::new(false),
            ctl_catch: AtomicBool::new(false),
            ctl_caught: AtomicU32::new(0),
            ident: Mutex::new(vec![vec![]; nb]),
            shapes: Mutex::new(Default::default()),
            cond: Conductor::new(),
            rdv: Mutex::new(None),
            inner_dispatches: av(n, || AtomicU32::new(0)),
            debug_texts: Mutex::new(Default::default()),
            printed_texts: Mutex::new(Default::default()),
            debug_variants: Mutex::new(Default::default()),
        })
    }

    pub fn phase(&self) -> u8 {
        self.phase.load(SeqCst)
    }
    pub fn set_phase(&self, p: u8) {
        self.phase.store(p, SeqCst)
    }

    pub fn reset_states(&self) {
        for (i, s) in self.state.iter().enumerate() {
            s.store(mix(77, i as u64), SeqCst);
        }
    }
    pub fn reset_counters(&self) {
        for v in [&self.run, &self.setup, &self.dispose, &self.inner_dispatches] {
            for c in v.iter() {
                c.store(0, SeqCst);
            }
        }
    }
    pub fn take_log(&self) -> Vec<Event> {
        std::mem::take(&mut *self.log.lock().unwrap())
    }
    pub fn states(&self) -> Vec<u64> {
        self.state.iter().map(|s| s.load(SeqCst)).collect()
    }
    pub fn runs(&self) -> Vec<u32> {
        self.run.iter().map(|s| s.load(SeqCst)).collect()
    }

    fn push_event(&self, sys: usize, kind: EvKind) {
        if !self.log_on.load(SeqCst) {
            return;
        }
        let ev = Event {
            t: self.clock.fetch_add(1, SeqCst),
            sys,
            kind,
            thread: thread_no(),
            worker: current_worker(),
            call: self.call.load(SeqCst),
        };
        self.log.lock().unwrap().push(ev);
    }

    pub fn log_ev(&self, sys: usize, kind: EvKind) {
        self.push_event(sys, kind);
    }

    fn spin(units: u32) {
        for _ in 0..units {
            for _ in 0..200 {
                std::hint::spin_loop();
            }
            std::thread::yield_now();
        }
    }

    pub fn fault_due(&self, idx: usize, point: u8) -> bool {
        if self.fault[idx].load(SeqCst) != point {
            return false;
        }
        let k = self.fault_run[idx].load(SeqCst);
        if k == 0 {
            return true;
        }
        // the run counter is incremented between the fetch and the body
        let this_run = self.run[idx].load(SeqCst) + if point == FAULT_BEFORE_FETCH { 1 } else { 0 };
        this_run == k
    }

    fn maybe_fault(&self, idx: usize, point: u8) {
        if self.fault_due(idx, point) {
            // open every gate first: siblings must not wait for a system that will never finish
            self.cond.release_all();
            if self.ctl_catch.load(SeqCst) {
                // the dispatch goes on after this panic (a controller catches it): one shot
                self.fault[idx].store(FAULT_NONE, SeqCst);
            }
            std::panic::panic_any(HarnessFault(idx));
        }
    }

    /// First statement of a system's fetch: before any borrow is taken.
    pub fn on_begin(&self, idx: usize) {
        if self.phase() != PHASE_RUN {
            return;
        }
        self.maybe_fault(idx, FAULT_BEFORE_FETCH);
        Self::spin(self.jitter_begin[idx].load(SeqCst));
        self.cond
            .gate((idx, 0), &mut || self.push_event(idx, EvKind::Begin));
    }

    /// Inside `run`, data fetched.
    pub fn body(&self, idx: usize, data: &mut dyn View) {
        match self.phase() {
            PHASE_IDENT => {
                let bid = self.flat.sys[idx].bid;
                self.ident.lock().unwrap()[bid].push(idx);
                return;
            }
            PHASE_RUN => {}
            _ => return,
        }
        self.active.fetch_add(1, SeqCst);
        self.push_event(idx, EvKind::Fetched);
        self.run[idx].fetch_add(1, SeqCst);
        if self.fault_due(idx, FAULT_IN_RUN) {
            self.active.fetch_sub(1, SeqCst);
        }
        self.maybe_fault(idx, FAULT_IN_RUN);
        // order-sensitive update of everything written, from everything read and own state
        let rv = data.read_vals();
        let mut dg = mix(idx as u64, rv.len() as u64);
        for v in rv {
            dg = mix(dg, v);
        }
        let st = self.state[idx].load(SeqCst);
        data.update(&mut |i, old| mix(mix(mix(old, idx as u64), dg), st.wrapping_add(i as u64)));
        self.state[idx].store(mix(st, dg), SeqCst);
        Self::spin(self.jitter_run[idx].load(SeqCst));
        self.rendezvous(idx);
        self.hold_here(idx);
        self.cond
            .gate((idx, 1), &mut || self.push_event(idx, EvKind::PreRelease));
    }

    fn hold_here(&self, idx: usize) {
        let target = self.hold[idx].load(SeqCst);
        if target != 0 && target == self.run[idx].load(SeqCst) {
            self.holding[idx].store(true, SeqCst);
            while self.hold[idx].load(SeqCst) == target {
                std::thread::sleep(Duration::from_micros(200));
            }
            self.holding[idx].store(false, SeqCst);
        }
    }

    fn rendezvous(&self, idx: usize) {
        let r = self.rdv.lock().unwrap().clone();
        if let Some(r) = r {
            if r.members.contains(&idx) {
                let n = r.members.len();
                let my = r.arrived.fetch_add(1, SeqCst) + 1;
                let round_target = ((my + n - 1) / n) * n;
                let start = Instant::now();
                let to = Duration::from_millis(r.timeout_ms.load(SeqCst));
                loop {
                    if r.arrived.load(SeqCst) >= round_target {
                        r.met.fetch_add(1, SeqCst);
                        break;
                    }
                    if r.missed.load(SeqCst) || start.elapsed() > to {
                        r.missed.store(true, SeqCst);
                        break;
                    }
                    std::thread::sleep(Duration::from_micros(50));
                }
            }
        }
    }

    /// After the data value was dropped, still inside `run`.
    pub fn on_released(&self, idx: usize) {
        if self.phase() != PHASE_RUN {
            return;
        }
        self.push_event(idx, EvKind::Released);
        self.active.fetch_sub(1, SeqCst);
        self.maybe_fault(idx, FAULT_AFTER_RELEASE);
    }

    pub fn on_setup(&self, idx: usize) {
        self.setup[idx].fetch_add(1, SeqCst);
    }
    pub fn on_dispose(&self, idx: usize) {
        self.dispose[idx].fetch_add(1, SeqCst);
    }
}

pub fn running_time(rt: u8) -> RunningTime {
    match rt {
        1 => RunningTime::VeryShort,
        2 => RunningTime::Short,
        3 => RunningTime::Average,
        4 => RunningTime::Long,
        _ => RunningTime::VeryLong,
    }
}

// ------------------------------------------------------------------------------------------------
// dynamic systems: custom accessor, real by-id borrows of exactly the declared ids

#[derive(Clone)]
pub struct HAcc {
    pub ctx: Arc<Ctx>,
    pub idx: usize,
    pub reads: Vec<Res>,
    pub writes: Vec<Res>,
    /// create missing resources in setup (like a default-providing accessor would)
    pub provide: bool,
}

impl Accessor for HAcc {
    fn try_new() -> Option<Self> {
        None
    }
    fn reads(&self) -> Vec<ResourceId> {
        self.reads.iter().map(|r| res::rid(*r)).collect()
    }
    fn writes(&self) -> Vec<ResourceId> {
        self.writes.iter().map(|r| res::rid(*r)).collect()
    }
}

pub struct DynData<'a> {
    r: Vec<Box<dyn RG + 'a>>,
    w: Vec<Box<dyn WG + 'a>>,
}

impl View for DynData<'_> {
    fn read_vals(&self) -> Vec<u64> {
        self.r.iter().map(|g| g.get()).collect()
    }
    fn update(&mut self, f: &mut dyn FnMut(usize, u64) -> u64) {
        for (i, g) in self.w.iter_mut().enumerate() {
            let old = g.get();
            g.set(f(i, old));
        }
    }
}

pub fn borrow_declared<'a>(world: &'a World, reads: &[Res], writes: &[Res]) -> DynData<'a> {
    let mut r = vec![];
    let mut w = vec![];
    for x in writes {
        if let Some(g) = res::fetch_w(world, *x) {
            w.push(g);
        }
    }
    for x in reads {
        if let Some(g) = res::fetch_r(world, *x) {
            r.push(g);
        }
    }
    DynData { r, w }
}

impl<'a> DynamicSystemData<'a> for DynData<'a> {
    type Accessor = HAcc;

    fn setup(acc: &HAcc, world: &mut World) {
        if acc.provide {
            for r in acc.reads.iter().chain(acc.writes.iter()) {
                if !world.has_value_raw(res::rid(*r)) {
                    res::insert(world, *r, 0);
                }
            }
        }
    }

    fn fetch(acc: &HAcc, world: &'a World) -> Self {
        acc.ctx.on_begin(acc.idx);
        borrow_declared(world, &acc.reads, &acc.writes)
    }
}

pub struct DynSys {
    pub acc: HAcc,
    pub rt: u8,
}

impl<'a> System<'a> for DynSys {
    type SystemData = DynData<'a>;

    fn run(&mut self, mut data: DynData<'a>) {
        let (ctx, idx) = (self.acc.ctx.clone(), self.acc.idx);
        ctx.body(idx, &mut data);
        drop(data);
        ctx.on_released(idx);
    }

    fn running_time(&self) -> RunningTime {
        running_time(self.rt)
    }

    fn accessor<'b>(&'b self) -> AccessorCow<'a, 'b, Self> {
        // both ways of handing out an accessor: a reference to a field, or an owned value built for
        // the call (its content differs from instance to instance of this one type)
        if self.acc.idx % 2 == 1 {
            AccessorCow::Owned(self.acc.clone())
        } else {
            AccessorCow::Ref(&self.acc)
        }
    }

    fn setup(&mut self, world: &mut World) {
        self.acc.ctx.on_setup(self.acc.idx);
        <DynData as DynamicSystemData>::setup(&self.acc, world);
    }

    fn dispose(self, _world: &mut World) {
        self.acc.ctx.on_dispose(self.acc.idx);
    }
}

// ------------------------------------------------------------------------------------------------
// static systems: shred's own SystemData impls fetch and declare

pub struct StaticSys<F> {
    pub ctx: Arc<Ctx>,
    pub idx: usize,
    pub rt: u8,
    pub _f: PhantomData<F>,
}

impl<'a, F: Fam> System<'a> for StaticSys<F> {
    type SystemData = F::Data<'a>;

    fn run(&mut self, mut data: F::Data<'a>) {
        self.ctx.body(self.idx, &mut data);
        drop(data);
        self.ctx.on_released(self.idx);
    }

    fn running_time(&self) -> RunningTime {
        running_time(self.rt)
    }

    fn accessor<'b>(&'b self) -> AccessorCow<'a, 'b, Self> {
        // `run_now` evaluates `self.accessor()` immediately before `fetch`: this is the only
        // harness-visible point in front of the borrows of a static system.
        self.ctx.on_begin(self.idx);
        AccessorCow::Owned(StaticAccessor::try_new().unwrap())
    }

    fn setup(&mut self, world: &mut World) {
        self.ctx.on_setup(self.idx);
        <F::Data<'a> as shred::SystemData>::setup(world);
    }

    fn dispose(self, _world: &mut World) {
        self.ctx.on_dispose(self.idx);
    }
}

// ------------------------------------------------------------------------------------------------
// thread-local systems (really !Send)

pub struct TlSys {
    pub ctx: Arc<Ctx>,
    pub idx: usize,
    pub reads: Vec<Res>,
    pub writes: Vec<Res>,
    pub provide: bool,
    pub _not_send: Rc<()>,
}

impl<'a> RunNow<'a> for TlSys {
    fn run_now(&mut self, world: &'a World) {
        self.ctx.on_begin(self.idx);
        let mut data = borrow_declared(world, &self.reads, &self.writes);
        self.ctx.body(self.idx, &mut data);
        drop(data);
        self.ctx.on_released(self.idx);
    }

    fn setup(&mut self, world: &mut World) {
        self.ctx.on_setup(self.idx);
        if self.provide {
            for r in self.reads.iter().chain(self.writes.iter()) {
                if !world.has_value_raw(res::rid(*r)) {
                    res::insert(world, *r, 0);
                }
            }
        }
    }

    fn dispose(self: Box<Self>, _world: &mut World) {
        self.ctx.on_dispose(self.idx);
    }
}

// ------------------------------------------------------------------------------------------------
// batch controllers

pub struct CustomCtl<F> {
    pub ctx: Arc<Ctx>,
    pub idx: usize,
    pub n: usize,
    pub rt: u8,
    pub _f: PhantomData<F>,
}

struct NoData;
impl View for NoData {
    fn read_vals(&self) -> Vec<u64> {
        vec![]
    }
    fn update(&mut self, _f: &mut dyn FnMut(usize, u64) -> u64) {}
}

impl<'a, 'b, 'c, F: Fam> BatchController<'a, 'b, 'c> for CustomCtl<F> {
    type BatchSystemData = F::Data<'c>;

    fn run(&mut self, world: &'c World, dispatcher: &mut Dispatcher<'a, 'b>) {
        let (ctx, idx) = (self.ctx.clone(), self.idx);
        match ctx.phase() {
            PHASE_IDENT => {
                let bid = ctx.flat.sys[idx].bid;
                ctx.ident.lock().unwrap()[bid].push(idx);
                ctx.shapes
                    .lock()
                    .unwrap()
                    .insert(idx, dispatcher.verif_shape());
                dispatcher.dispatch_seq(world);
                dispatcher.dispatch_thread_local(world);
                return;
            }
            PHASE_RUN => {}
            _ => return,
        }
        ctx.on_begin(idx);
        ctx.active.fetch_add(1, SeqCst);
        ctx.push_event(idx, EvKind::Fetched);
        ctx.run[idx].fetch_add(1, SeqCst);
        if ctx.fault_due(idx, FAULT_IN_RUN) {
            ctx.active.fetch_sub(1, SeqCst);
        }
        ctx.maybe_fault(idx, FAULT_IN_RUN);
        {
            // the controller uses its declared data, then lets go of it before dispatching
            let mut data: F::Data<'c> = world.system_data();
            ctx.push_event(idx, EvKind::CtlFetched);
            let rv = data.read_vals();
            let mut dg = mix(idx as u64, rv.len() as u64);
            for v in rv {
                dg = mix(dg, v);
            }
            let st = ctx.state[idx].load(SeqCst);
            data.update(&mut |i, old| {
                mix(mix(mix(old, idx as u64), dg), st.wrapping_add(i as u64))
            });
            ctx.state[idx].store(mix(st, dg), SeqCst);
            drop(data);
            ctx.push_event(idx, EvKind::CtlReleased);
        }
        for _ in 0..self.n {
            ctx.inner_dispatches[idx].fetch_add(1, SeqCst);
            let mut one = || {
                if ctx.seq_inner.load(SeqCst) {
                    dispatcher.dispatch_seq(world);
                    dispatcher.dispatch_thread_local(world);
                } else if idx % 2 == 1 {
                    // the trait-object entry point of the inner dispatcher
                    shred::RunNow::run_now(dispatcher, world);
                } else {
                    dispatcher.dispatch(world);
                }
            };
            if ctx.ctl_catch.load(SeqCst) {
                // a controller that contains the panics of its inner dispatches and carries on
                if std::panic::catch_unwind(std::panic::AssertUnwindSafe(&mut one)).is_err() {
                    ctx.ctl_caught.fetch_add(1, SeqCst);
                }
            } else {
                one();
            }
        }
        Ctx::spin(ctx.jitter_run[idx].load(SeqCst));
        ctx.cond
            .gate((idx, 1), &mut || ctx.push_event(idx, EvKind::PreRelease));
        ctx.on_released(idx);
    }

    fn running_time(&self) -> RunningTime {
        running_time(self.rt)
    }
}

/// controller for shred's own `MultiDispatcher`
pub struct MultiCtl<F> {
    pub ctx: Arc<Ctx>,
    pub idx: usize,
    pub planned: usize,
    pub _f: PhantomData<F>,
}

impl<'a, F: Fam> MultiDispatchController<'a> for MultiCtl<F> {
    type SystemData = F::Data<'a>;

    fn plan(&mut self, data: F::Data<'a>) -> usize {
        let (ctx, idx) = (self.ctx.clone(), self.idx);
        match ctx.phase() {
            PHASE_IDENT => {
                let bid = ctx.flat.sys[idx].bid;
                ctx.ident.lock().unwrap()[bid].push(idx);
                // no access to the inner dispatcher from here: its layout comes from a twin build
                return 0;
            }
            PHASE_RUN => {}
            _ => return 0,
        }
        // the library has fetched the data already: "before fetch" is the first statement of plan
        ctx.maybe_fault(idx, FAULT_BEFORE_FETCH);
        ctx.push_event(idx, EvKind::Begin);
        ctx.push_event(idx, EvKind::CtlFetched);
        ctx.run[idx].fetch_add(1, SeqCst);
        ctx.maybe_fault(idx, FAULT_IN_RUN);
        let rv = data.read_vals();
        let mut dg = mix(idx as u64, rv.len() as u64);
        for v in rv {
            dg = mix(dg, v);
        }
        let st = ctx.state[idx].load(SeqCst);
        let mut data = data;
        data.update(&mut |i, old| mix(mix(mix(old, idx as u64), dg), st.wrapping_add(i as u64)));
        ctx.state[idx].store(mix(st, dg), SeqCst);
        drop(data);
        ctx.push_event(idx, EvKind::CtlReleased);
        ctx.maybe_fault(idx, FAULT_AFTER_RELEASE);
        ctx.inner_dispatches[idx].fetch_add(self.planned as u32, SeqCst);
        self.planned
    }
}

#[allow(dead_code)]
fn _assert_nodata_used() {
    let _ = NoData;
}
