#![allow(dead_code)]
use std::collections::BTreeMap;
use std::time::Instant;

use vcheck::driver::{self, Known, PropertyRun, Stats, SubResult, Violation};
use vcheck::registry::{all_subs_for, Sub, ALL};
use vcheck::{hsys, p_prog};

pub struct Tier {
    pub quick: bool,
    pub seed: u64,
    pub lanes: usize,
}

impl Tier {
    pub fn name(&self) -> &'static str {
        if self.quick {
            "quick"
        } else {
            "thorough"
        }
    }
}

fn install_quiet_panic_hook() {
    // panics are data here: the harness provokes and catches many of them
    let loud = std::env::var("VERIF_LOUD").is_ok();
    let default_hook = std::panic::take_hook();
    std::panic::set_hook(Box::new(move |info| {
        if let Some(loc) = info.location() {
            let _ = hsys::LAST_PANIC_LOC.try_with(|l| {
                if let Ok(mut l) = l.try_borrow_mut() {
                    *l = format!("{}:{}", loc.file(), loc.line());
                }
            });
        }
        if let Some(l) = hsys::lane_of_current_thread() {
            hsys::PANIC_EPOCH[l].fetch_add(1, std::sync::atomic::Ordering::SeqCst);
        }
        if loud {
            default_hook(info);
        }
    }));
}

/// saved shrunk failures (committed under /verif/regressions) are replayed first, strictly
fn run_regressions(id: &str, subs: &[Sub]) -> SubResult {
    let t0 = Instant::now();
    let mut stats = Stats::default();
    let mut violation = None;
    let mut harness_error = None;
    let dir = driver::verif_dir().join("regressions");
    let mut files: Vec<_> = std::fs::read_dir(&dir)
        .map(|rd| rd.filter_map(|e| e.ok()).map(|e| e.path()).collect())
        .unwrap_or_default();
    files.sort();
    for f in files {
        let fname = f.file_name().unwrap().to_string_lossy().to_string();
        if !fname.starts_with(&format!("{}-", id)) || !fname.ends_with(".json") {
            continue;
        }
        let v: serde_json::Value = match std::fs::read_to_string(&f)
            .ok()
            .and_then(|t| serde_json::from_str(&t).ok())
        {
            Some(v) => v,
            None => {
                harness_error = Some(format!("cannot read regression file {}", fname));
                continue;
            }
        };
        let check = v["check"].as_str().unwrap_or("");
        if let Some(s) = subs.iter().find(|s| s.p.dname() == check) {
            stats.evaluations += 1;
            match s.p.dreplay(&v["case"]) {
                Err(e) => harness_error = Some(e),
                Ok(Ok(())) => {}
                Ok(Err(fail)) => {
                    if violation.is_none() {
                        violation = Some(Violation {
                            property: id.to_string(),
                            check: check.to_string(),
                            msg: format!("regression {} fails again: {}", fname, fail.msg),
                            replay: f.to_string_lossy().to_string(),
                        });
                    }
                }
            }
        }
    }
    SubResult {
        name: "regressions".into(),
        rule: "saved shrunk failures replayed without the generator".into(),
        stats,
        violation,
        harness_error,
        wall_s: t0.elapsed().as_secs_f64(),
    }
}

fn run_property(id: &str, tier: &Tier, known: &Known) -> i32 {
    if id == "C06" {
        let r = p_prog::run_c06(tier.quick, tier.seed);
        return PropertyRun {
            id: id.to_string(),
            tier: tier.name().to_string(),
            seed: tier.seed,
            level: "exploration".to_string(),
            subs: vec![r],
            assumptions: vec![
                "the grammar covers the compositions the library provides up to nesting depth 3, not arbitrary user SystemData impls".into(),
                "the borrow state of a cell is observed through World::try_fetch_internal + try_borrow(_mut)".into(),
            ],
            extra: BTreeMap::new(),
        }
        .finish(known);
    }
    let subs = all_subs_for(id);
    if subs.is_empty() {
        eprintln!("unknown property {}", id);
        return 2;
    }
    let assumptions: Vec<String> = vec![
        "the recovered layout relies on dispatch_seq visiting stages, groups and systems in storage order".into(),
        "harness systems fetch exactly what they declare".into(),
    ];
    let level = if id == "C14" {
        "fault_enumeration"
    } else {
        "exploration"
    };
    let mut results = vec![];
    let reg = run_regressions(id, &subs);
    if reg.stats.evaluations > 0 || reg.harness_error.is_some() {
        results.push(reg);
    }
    if matches!(id, "C19" | "C05" | "C20" | "C01" | "C02" | "C03" | "C10") {
        let pid: &'static str = match id {
            "C19" => "C19",
            "C20" => "C20",
            "C01" => "C01",
            "C02" => "C02",
            "C03" => "C03",
            "C10" => "C10",
            _ => "C05",
        };
        results.push(vcheck::p_builder::run_external(pid, tier.quick, tier.seed));
    }
    for s in &subs {
        // a violation was found already: report it instead of running further sub-checks on code
        // that is known to be broken (they could take the whole process down)
        if results.iter().any(|r: &SubResult| r.violation.is_some()) {
            break;
        }
        // developer knob (never set by a registered command): run one sub-check only
        if let Ok(only) = std::env::var("VERIF_ONLY") {
            if s.p.dname() != only {
                continue;
            }
        }
        let cases = if tier.quick { s.quick } else { s.thorough };
        results.push(
            s.p.ddrive(cases, tier.lanes.min(s.max_lanes), tier.seed, known),
        );
    }
    PropertyRun {
        id: id.to_string(),
        tier: tier.name().to_string(),
        seed: tier.seed,
        level: level.to_string(),
        subs: results,
        assumptions,
        extra: BTreeMap::new(),
    }
    .finish(known)
}

fn replay(path: &str) -> i32 {
    let v: serde_json::Value = match std::fs::read_to_string(path)
        .map_err(|e| e.to_string())
        .and_then(|t| serde_json::from_str(&t).map_err(|e| e.to_string()))
    {
        Ok(v) => v,
        Err(e) => {
            eprintln!("cannot read {}: {}", path, e);
            return 2;
        }
    };
    let check = v["check"].as_str().unwrap_or("").to_string();
    let property = v["property"].as_str().unwrap_or("").to_string();
    if check == "c19-processes" || check == "c05-nopar" || check == "c20-nopar" {
        let pid: &'static str = match check.as_str() {
            "c19-processes" => "C19",
            "c20-nopar" => "C20",
            _ => "C05",
        };
        return match vcheck::p_builder::replay_external(pid, &v["case"]) {
            Err(e) => {
                eprintln!("INCONCLUSIVE (harness error): {}", e);
                2
            }
            Ok(Ok(())) => {
                println!("replay of {} passes", path);
                0
            }
            Ok(Err(m)) => {
                println!("VIOLATION property={} replay={}", pid, path);
                println!("  check={} : {}", check, m);
                1
            }
        };
    }
    if check == "c06-programs" {
        return match p_prog::replay_c06(&v["case"]) {
            Err(e) => {
                eprintln!("INCONCLUSIVE (harness error): {}", e);
                2
            }
            Ok(Ok(())) => {
                println!("replay of {} passes", path);
                0
            }
            Ok(Err(m)) => {
                println!("VIOLATION property=C06 replay={}", path);
                println!("  check=c06-programs : {}", m);
                1
            }
        };
    }
    let mut result = None;
    for id in ALL {
        for s in all_subs_for(id) {
            if s.p.dname() == check {
                result = Some(s.p.dreplay(&v["case"]));
            }
        }
    }
    match result {
        None => {
            eprintln!("no check named {}", check);
            2
        }
        Some(Err(e)) => {
            eprintln!("INCONCLUSIVE (harness error): {}", e);
            2
        }
        Some(Ok(Ok(()))) => {
            println!("replay of {} passes", path);
            0
        }
        Some(Ok(Err(f))) => {
            println!("VIOLATION property={} replay={}", property, path);
            println!("  check={} : {}", check, f.msg);
            1
        }
    }
}

fn main() {
    install_quiet_panic_hook();
    let args: Vec<String> = std::env::args().collect();
    if args.len() < 3 {
        eprintln!("usage: vcheck <property id> quick|thorough | vcheck replay <file>");
        std::process::exit(2);
    }
    let known = Known::load();
    let seed = std::env::var("VERIF_SEED")
        .ok()
        .and_then(|s| s.parse::<u64>().ok())
        .unwrap_or(0);
    let lanes = std::env::var("VERIF_LANES")
        .ok()
        .and_then(|s| s.parse::<usize>().ok())
        .unwrap_or(16);
    let code = if args[1] == "replay" {
        replay(&args[2])
    } else if args[1] == "layouts" {
        // vcheck layouts <plans.jsonl> <out.jsonl>: summaries computed in this (separate) process
        match vcheck::nopar::run_file(&args[2], &args[3], 2) {
            Ok(_) => 0,
            Err(e) => {
                eprintln!("{}", e);
                2
            }
        }
    } else if args[1] == "fuzz-artifact" {
        // vcheck fuzz-artifact <ID> <artifact file> <replay out>: turn a libFuzzer crash input into a
        // replay file of the sub-check that fails on it
        let bytes = std::fs::read(&args[3]).unwrap_or_default();
        let stream: Vec<u16> = bytes
            .chunks(2)
            .map(|c| (c[0] as u16) << 8 | *c.get(1).unwrap_or(&0) as u16)
            .collect();
        let mut code = 2;
        for s in all_subs_for(&args[2]) {
            if !vcheck::registry::fuzzable(s.p.dname()) {
                continue;
            }
            if let Some(msg) = s.p.dfuzz_one(&stream, &known) {
                let mut v = s.p.dcase_json(&stream);
                v["message"] = serde_json::Value::String(format!("(coverage-guided fuzzer) {}", msg));
                let _ = std::fs::write(&args[4], serde_json::to_string_pretty(&v).unwrap());
                println!("VIOLATION property={} replay={}", args[2], args[4]);
                println!("  check={} : {}", s.p.dname(), msg);
                code = 1;
                break;
            }
        }
        if code == 2 {
            eprintln!("the artifact does not fail any sub-check when run outside the fuzzer");
        }
        code
    } else if args[1] == "loop" {
        // vcheck loop <file> <n>: re-run one saved case n times in this process (flake hunting)
        let n: usize = args.get(3).and_then(|s| s.parse().ok()).unwrap_or(1000);
        let v: serde_json::Value =
            serde_json::from_str(&std::fs::read_to_string(&args[2]).unwrap()).unwrap();
        let check = v["check"].as_str().unwrap_or("").to_string();
        let mut fails = 0;
        for id in ALL {
            for s in all_subs_for(id) {
                if s.p.dname() == check {
                    for i in 0..n {
                        if let Ok(Err(f)) = s.p.dreplay(&v["case"]) {
                            fails += 1;
                            if fails <= 3 {
                                println!("iteration {}: {}", i, f.msg);
                            }
                        }
                    }
                }
            }
        }
        println!("{} failures in {} iterations", fails, n);
        if fails > 0 {
            1
        } else {
            0
        }
    } else {
        let tier = Tier {
            quick: args[2] != "thorough",
            seed,
            lanes,
        };
        run_property(&args[1], &tier, &known)
    };
    std::process::exit(code);
}
