//! Static `SystemData` families used by `Static(k)` systems and batch controllers.
//! The model-side access table is `plan::family_access` (written independently).

use shred::{Read, ReadExpect, Resource, SetupHandler, SystemData, World, Write, WriteExpect};

use crate::res::Slot;

pub trait View {
    fn read_vals(&self) -> Vec<u64>;
    /// replace every written cell `i` (in declaration order) by `f(i, old)`
    fn update(&mut self, f: &mut dyn FnMut(usize, u64) -> u64);
}

pub trait Fam: Send + Sync + 'static {
    type Data<'a>: SystemData<'a> + View;
}

#[derive(shred::SystemData)]
pub struct D7<'a> {
    pub a: Read<'a, Slot<2>>,
    pub b: Write<'a, Slot<7>>,
}

macro_rules! fam {
    ($name:ident, $ty:ty, |$s:ident| $reads:expr, |$m:ident| $writes:expr) => {
        pub struct $name;
        impl Fam for $name {
            type Data<'a> = $ty;
        }
        impl<'a> View for $ty {
            fn read_vals(&self) -> Vec<u64> {
                let $s = self;
                $reads
            }
            fn update(&mut self, f: &mut dyn FnMut(usize, u64) -> u64) {
                let $m = self;
                let cells: Vec<&mut u64> = $writes;
                for (i, c) in cells.into_iter().enumerate() {
                    *c = f(i, *c);
                }
            }
        }
    };
}

fam!(F0, (), |_s| vec![], |_m| vec![]);
fam!(F1, Read<'a, Slot<0>>, |s| vec![s.val], |_m| vec![]);
fam!(F2, Write<'a, Slot<1>>, |_s| vec![], |m| vec![&mut m.val]);
fam!(
    F3,
    (Read<'a, Slot<0>>, Write<'a, Slot<2>>),
    |s| vec![s.0.val],
    |m| vec![&mut m.1.val]
);
fam!(
    F4,
    (Write<'a, Slot<3>>, Read<'a, Slot<1>>, Read<'a, Slot<4>>),
    |s| vec![s.1.val, s.2.val],
    |m| vec![&mut m.0.val]
);
fam!(
    F5,
    Option<Read<'a, Slot<5>>>,
    |s| s.iter().map(|g| g.val).collect(),
    |_m| vec![]
);
fam!(
    F6,
    (Option<Write<'a, Slot<6>>>, Read<'a, Slot<0>>),
    |s| vec![s.1.val],
    |m| m.0.iter_mut().map(|g| &mut g.val).collect()
);
fam!(F7, D7<'a>, |s| vec![s.a.val], |m| vec![&mut m.b.val]);
fam!(F8, ReadExpect<'a, Slot<3>>, |s| vec![s.val], |_m| vec![]);
fam!(
    F9,
    (WriteExpect<'a, Slot<4>>, Read<'a, Slot<5>>),
    |s| vec![s.1.val],
    |m| vec![&mut m.0.val]
);
fam!(
    F10,
    ((Read<'a, Slot<6>>, Write<'a, Slot<0>>), Read<'a, Slot<7>>),
    |s| vec![(s.0).0.val, s.1.val],
    |m| vec![&mut (m.0).1.val]
);
fam!(
    F11,
    (Read<'a, Slot<1>>, Read<'a, Slot<1>>),
    |s| vec![s.0.val, s.1.val],
    |_m| vec![]
);

thread_local! {
    /// number of calls of `CountingHandler::setup` on this thread
    pub static HANDLER_CALLS: std::cell::Cell<u64> = const { std::cell::Cell::new(0) };
}

/// custom setup handler: counts its calls, then provides the default like `DefaultProvider`
pub struct CountingHandler;

impl<T: Resource + Default> SetupHandler<T> for CountingHandler {
    fn setup(world: &mut World) {
        HANDLER_CALLS.with(|c| c.set(c.get() + 1));
        world.entry().or_insert_with(T::default);
    }
}

fam!(
    F12,
    (
        Read<'a, Slot<5>, CountingHandler>,
        Write<'a, Slot<6>, CountingHandler>
    ),
    |s| vec![s.0.val],
    |m| vec![&mut m.1.val]
);

#[macro_export]
macro_rules! with_fam {
    ($k:expr, $F:ident, $body:expr) => {
        match $k {
            0 => {
                type $F = $crate::fam::F0;
                $body
            }
            1 => {
                type $F = $crate::fam::F1;
                $body
            }
            2 => {
                type $F = $crate::fam::F2;
                $body
            }
            3 => {
                type $F = $crate::fam::F3;
                $body
            }
            4 => {
                type $F = $crate::fam::F4;
                $body
            }
            5 => {
                type $F = $crate::fam::F5;
                $body
            }
            6 => {
                type $F = $crate::fam::F6;
                $body
            }
            7 => {
                type $F = $crate::fam::F7;
                $body
            }
            8 => {
                type $F = $crate::fam::F8;
                $body
            }
            9 => {
                type $F = $crate::fam::F9;
                $body
            }
            10 => {
                type $F = $crate::fam::F10;
                $body
            }
            11 => {
                type $F = $crate::fam::F11;
                $body
            }
            12 => {
                type $F = $crate::fam::F12;
                $body
            }
            // two DIFFERENT families whose types are spelt the same: block-local items of one function
            // share their `std::any::type_name` (it does not tell blocks apart), `TypeId`s differ
            13 => {
                struct Twin;
                impl $crate::fam::Fam for Twin {
                    type Data<'a> = ::shred::Read<'a, $crate::res::Slot<0>>;
                }
                type $F = Twin;
                $body
            }
            14 => {
                struct Twin;
                impl $crate::fam::Fam for Twin {
                    type Data<'a> = ::shred::Write<'a, $crate::res::Slot<1>>;
                }
                type $F = Twin;
                $body
            }
            _ => panic!("harness: family index out of range"),
        }
    };
}
