//! C09: World as a typed map (model-based histories with matching and mismatching type arguments)
//! C08: World borrows (model-based histories of guards; plus a concurrent variant)

use std::collections::BTreeMap;
use std::panic::{catch_unwind, AssertUnwindSafe};

use serde::{Deserialize, Serialize};
use serde_json::json;
use shred::{Fetch, FetchMut, Read, Resource, World, Write};

use crate::build::panic_msg;
use crate::driver::{Fail, Prop, Stats};
use crate::plan::Src;
use crate::res::Cell;
use crate::with_wt;
use crate::wtypes::*;

// ------------------------------------------------------------------------------------------------
// C09

#[derive(Clone, Debug, Serialize, Deserialize, PartialEq)]
pub enum MapOp {
    Insert { t: u8, v: u64 },
    /// insert over a present value whose destructor panics (fault injected at the replace point)
    InsertOverBomb { t: u8, v: u64 },
    /// `mem::forget` a guard of the slot (its borrow is never released), then insert over it
    LeakGuardThenInsert { t: u8, v: u64, excl: bool },
    /// `mem::forget` a guard of the slot and go on: until the slot is replaced, conflicting
    /// fetches / entry / setup / exec must panic and nothing may clear the borrow
    LeakGuard { t: u8, excl: bool },
    InsertById { t: u8, kt: u8, kd: u8, v: u64 },
    Remove { t: u8 },
    RemoveById { t: u8, kt: u8, kd: u8 },
    EntryOrInsert { t: u8, v: u64 },
    EntryOrInsertWith { t: u8, v: u64 },
    HasValue { t: u8 },
    HasValueRaw { kt: u8, kd: u8 },
    GetMut { t: u8 },
    GetMutRaw { kt: u8, kd: u8 },
    TryFetch { t: u8 },
    TryFetchMut { t: u8 },
    Fetch { t: u8 },
    FetchMut { t: u8 },
    TryFetchById { t: u8, kt: u8, kd: u8 },
    TryFetchMutById { t: u8, kt: u8, kd: u8 },
    SetupRead { t: u8 },
    SetupWriteExpect { t: u8 },
    SetupOptionRead { t: u8 },
    ExecWrite { t: u8 },
    /// `exec` / `setup` with a hand-written `SystemData` whose setup and fetch report every call;
    /// `declared`: whether its `reads()` names the resource its setup provides
    ExecProbe { t: u8, declared: bool },
    SetupProbe { t: u8, declared: bool },
}

thread_local! {
    /// 1 = Prober::setup, 2 = Prober::fetch, in call order
    static PROBE_LOG: std::cell::RefCell<Vec<u8>> = const { std::cell::RefCell::new(Vec::new()) };
}

/// user-written system data: its setup inserts a default `T` if there is none
pub struct Prober<T, const DECL: bool>(bool, std::marker::PhantomData<T>);

impl<'a, T: Tracked + Default, const DECL: bool> shred::SystemData<'a> for Prober<T, DECL> {
    fn setup(world: &mut World) {
        PROBE_LOG.with(|l| l.borrow_mut().push(1));
        if !world.has_value::<T>() {
            world.insert(T::default());
        }
    }
    fn fetch(world: &'a World) -> Self {
        PROBE_LOG.with(|l| l.borrow_mut().push(2));
        Prober(world.has_value::<T>(), std::marker::PhantomData)
    }
    fn reads() -> Vec<shred::ResourceId> {
        if DECL {
            vec![shred::ResourceId::new::<T>()]
        } else {
            vec![]
        }
    }
    fn writes() -> Vec<shred::ResourceId> {
        vec![]
    }
}

pub struct C09;

type Model = BTreeMap<(u8, u8), u64>;

fn gen_key(src: &mut Src, t: u8, mismatch_p: usize) -> (u8, u8) {
    let kt = if src.chance(mismatch_p, 16) {
        src.pick(NWT) as u8
    } else {
        t
    };
    (kt, src.pick(NWD) as u8)
}

fn outcome<R>(f: impl FnOnce() -> R) -> Result<R, String> {
    catch_unwind(AssertUnwindSafe(f)).map_err(|p| panic_msg(&p))
}

/// 1 = a forgotten shared guard (or several), 2 = a forgotten exclusive guard
type Leaks = BTreeMap<(u8, u8), u8>;

fn check_world_vs_model(world: &mut World, model: &Model, leaks: &Leaks, step: usize) -> Result<(), Fail> {
    for t in 0..NWT as u8 {
        for d in 0..NWD as u8 {
            let id = wrid(t, d);
            let present = world.has_value_raw(id.clone());
            if present != model.contains_key(&(t, d)) {
                return Err(Fail::new(format!(
                    "after step {}: slot (type {}, dynamic id {}) present={} but the reference map says {}",
                    step, t, d, present, model.contains_key(&(t, d))
                )));
            }
            // a slot with a forgotten guard cannot be looked at through get_mut(_raw) (the cell type
            // asserts that nothing is borrowed): a shared leak is read through a shared fetch, an
            // exclusive leak only has its presence compared
            if present && leaks.contains_key(&(t, d)) {
                if leaks[&(t, d)] == 1 {
                    let real = with_wt!(t, T, world.try_fetch_by_id::<T>(wrid(t, d)).map(|g| (g.id(), g.pattern_ok())));
                    if real != Some((model[&(t, d)], true)) {
                        return Err(Fail::new(format!(
                            "after step {}: slot (type {}, dynamic id {}) holds {:?}, the reference map holds {}",
                            step, t, d, real, model[&(t, d)]
                        )));
                    }
                }
                continue;
            }
            if present {
                let got = world.get_mut_raw(id).map(|r| (*r).type_id());
                if got != Some(wtype_id(t)) {
                    return Err(Fail::new(format!(
                        "after step {}: the value stored under (type {}, dynamic id {}) does not have the type named by the id",
                        step, t, d
                    )));
                }
                // the checked downcasts of the trait object agree: Some for the id's type, None for
                // another one
                let other = (t + 1) % NWT as u8;
                let casts = {
                    let r = world.get_mut_raw(wrid(t, d)).expect("present");
                    let own_ref = with_wt!(t, T, r.downcast_ref::<T>().map(|v| v.id()));
                    let other_ref = with_wt!(other, T, r.downcast_ref::<T>().is_some());
                    let own_mut = with_wt!(t, T, r.downcast_mut::<T>().map(|v| v.id()));
                    let other_mut = with_wt!(other, T, r.downcast_mut::<T>().is_some());
                    (own_ref, other_ref, own_mut, other_mut)
                };
                if casts != (Some(model[&(t, d)]), false, Some(model[&(t, d)]), false) {
                    return Err(Fail::new(format!(
                        "after step {}: downcast_ref / downcast_mut of the value under (type {}, dynamic id {}) give (own, other type {}, own mut, other mut) = {:?}, expected the value {} for its own type and nothing for the other",
                        step, t, d, other, casts, model[&(t, d)]
                    )));
                }
                // identity of the stored value (through an exclusive fetch: nothing may be borrowed;
                // slots with a forgotten guard are read through get_mut, which ignores the flag)
                let real = with_wt!(t, T, {
                    let g: Option<FetchMut<T>> = world.try_fetch_mut_by_id::<T>(wrid(t, d));
                    g.map(|g| (g.id(), g.pattern_ok()))
                });
                match real {
                    Some((idv, ok)) => {
                        if idv != model[&(t, d)] || !ok {
                            return Err(Fail::new(format!(
                                "after step {}: slot (type {}, dynamic id {}) holds value {} (pattern ok: {}), the reference map holds {}",
                                step, t, d, idv, ok, model[&(t, d)]
                            )));
                        }
                    }
                    None => {
                        return Err(Fail::new(format!(
                            "after step {}: slot (type {}, dynamic id {}) is present but cannot be fetched",
                            step, t, d
                        )))
                    }
                }
            }
        }
    }
    Ok(())
}

fn tracker_consistent(model: &Model, step: usize, extra_live: u64) -> Result<(), Fail> {
    let (live, dd, bad): (Vec<(u8, u64)>, usize, usize) = TRACK.with(|t| {
        let t = t.borrow();
        (
            t.live.iter().cloned().collect(),
            t.double_drops.len(),
            t.bad_pattern.len(),
        )
    });
    if dd > 0 {
        return Err(Fail::new(format!("after step {}: a value was dropped twice", step)));
    }
    if bad > 0 {
        return Err(Fail::new(format!(
            "after step {}: a value was dropped with a corrupted payload (reinterpreted memory)",
            step
        )));
    }
    // exactly the values of the reference map are alive (type 0 is counted separately)
    let mut want: Vec<(u8, u64)> = model
        .iter()
        .filter(|((t, _), _)| *t != 0 && *t != 5)
        .map(|((t, _), v)| (*t, *v))
        .collect();
    want.sort();
    let mut live_sorted = live.clone();
    live_sorted.sort();
    // one-byte ids can collide between slots: compare as sets for type 1, exactly otherwise
    want.dedup();
    if live_sorted != want {
        return Err(Fail::new(format!(
            "after step {}: live values {:?} differ from the values the reference map holds {:?} (a value leaked or was dropped early)",
            step, live_sorted, want
        )));
    }
    let z_want = model.keys().filter(|(t, _)| *t == 0).count() as u64 + extra_live;
    if z_live() != z_want {
        return Err(Fail::new(format!(
            "after step {}: {} zero-sized values alive, the reference map holds {}",
            step,
            z_live(),
            z_want
        )));
    }
    Ok(())
}

impl C09 {
    fn fresh_value(model: &Model, t: u8, v: u64) -> u64 {
        // keep ids unique among live values of a type so that identity is observable
        let mut id = norm_id(t, v);
        if t >= 1 {
            let mut guard = 0;
            while model.iter().any(|((mt, _), mv)| *mt == t && *mv == id) && guard < 300 {
                id = norm_id(t, id + 1);
                if t == 1 && id >= 200 {
                    id = 0;
                }
                guard += 1;
            }
        }
        id
    }
}

impl Prop for C09 {
    type Case = Vec<MapOp>;
    fn name(&self) -> &'static str {
        "c09-model"
    }
    fn property(&self) -> &'static str {
        "C09"
    }
    fn rule(&self) -> &'static str {
        "histories (<= 40 steps) over insert / insert_by_id / remove / remove_by_id / entry().or_insert(_with) / has_value(_raw) / get_mut(_raw) / fetch, fetch_mut, try_fetch(_mut), try_fetch(_mut)_by_id / setup::<Read|WriteExpect|Option<Read>> / exec (Write<T>, and a hand-written SystemData that logs its setup and fetch calls: exec must be exactly setup then fetch, setup exactly setup, whether or not the data declares the resource and whether or not it exists) over 8 value types (zero-sized, 1 byte, 8 bytes, 24 bytes without drop glue, heap-owning, 512 bytes, 5000 bytes, 256-byte aligned) x 5 dynamic ids (0, 2^32, 2^32 - 1, u64::MAX, u64::MAX - 1), 1/4 of the id-taking calls with a type argument that disagrees with the id; oracle: reference BTreeMap<(type, dynamic id), value id>; every result equal; a mismatching id-taking call panics and leaves map and live set unchanged; after every step has_value_raw, the stored value's TypeId, its identity and payload pattern agree with the reference for all 40 slots, and the tracker's live set equals the reference's values (no leak, no early or double drop); after dropping the world nothing is alive; non-trivial = >= 1 mismatching call, >= 1 replace and >= 1 remove of a present key; distinct = history hash"
    }
    fn stream_len(&self) -> usize {
        200
    }
    fn journal(&self) -> bool {
        true
    }
    fn gen(&self, src: &mut Src) -> Vec<MapOp> {
        let n = src.pick(41);
        let mut ops = vec![];
        for _ in 0..n {
            let t = src.pick(NWT) as u8;
            let v = src.raw() as u64 % 150;
            let op = match src.pick(20) {
                0 => MapOp::Insert { t, v },
                1 => {
                    if src.chance(5, 16) {
                        MapOp::InsertOverBomb { t, v }
                    } else if src.chance(5, 16) {
                        MapOp::LeakGuardThenInsert {
                            t,
                            v,
                            excl: src.chance(8, 16),
                        }
                    } else if src.chance(6, 16) {
                        MapOp::LeakGuard {
                            t,
                            excl: src.chance(6, 16),
                        }
                    } else {
                        MapOp::Insert { t, v }
                    }
                }
                2 | 3 => {
                    let (kt, kd) = gen_key(src, t, 4);
                    MapOp::InsertById { t, kt, kd, v }
                }
                4 => MapOp::Remove { t },
                5 | 6 => {
                    let (kt, kd) = gen_key(src, t, 4);
                    MapOp::RemoveById { t, kt, kd }
                }
                7 => MapOp::EntryOrInsert { t, v },
                8 => MapOp::EntryOrInsertWith { t, v },
                9 => MapOp::HasValue { t },
                10 => {
                    let (kt, kd) = gen_key(src, t, 0);
                    MapOp::HasValueRaw { kt, kd }
                }
                11 => MapOp::GetMut { t },
                12 => {
                    let (kt, kd) = gen_key(src, t, 0);
                    MapOp::GetMutRaw { kt, kd }
                }
                13 => MapOp::TryFetch { t },
                14 => MapOp::TryFetchMut { t },
                15 => {
                    if src.chance(8, 16) {
                        MapOp::Fetch { t }
                    } else {
                        MapOp::FetchMut { t }
                    }
                }
                16 => {
                    let (kt, kd) = gen_key(src, t, 4);
                    MapOp::TryFetchById { t, kt, kd }
                }
                17 => {
                    let (kt, kd) = gen_key(src, t, 4);
                    MapOp::TryFetchMutById { t, kt, kd }
                }
                18 => match src.pick(3) {
                    0 => MapOp::SetupRead { t },
                    1 => MapOp::SetupWriteExpect { t },
                    _ => MapOp::SetupOptionRead { t },
                },
                _ => match src.pick(4) {
                    0 | 1 => MapOp::ExecWrite { t },
                    2 => MapOp::ExecProbe {
                        t,
                        declared: src.chance(8, 16),
                    },
                    _ => MapOp::SetupProbe {
                        t,
                        declared: src.chance(8, 16),
                    },
                },
            };
            ops.push(op);
        }
        ops
    }

    fn check(&self, ops: &Vec<MapOp>, _lane: usize, st: &mut Stats) -> Result<(), Fail> {
        tracker_reset();
        z_reset();
        // if an oracle fails the world may be corrupted (that is what it detected): never run its
        // destructors then, so that the report gets out
        let mut world = std::mem::ManuallyDrop::new(World::empty());
        let mut model: Model = BTreeMap::new();
        let (mut mismatches, mut replaces, mut removes) = (0, 0, 0);
        let mut bombs = 0u64;
        let mut leaks_n = 0u64;
        let mut leaks: Leaks = BTreeMap::new();
        let mut leak_panics = 0u64;
        let mut probes = 0u64;
        for (step, op) in ops.iter().enumerate() {
            let bad = |what: String| Fail::new(format!("step {} {:?}: {}", step, op, what));
            // ---- slots with a forgotten guard ------------------------------------------------
            {
                // (slot, 1 = needs a shared borrow / 2 = needs an exclusive borrow / 3 = removes)
                let touch: Option<((u8, u8), u8)> = match op {
                    MapOp::TryFetch { t } | MapOp::Fetch { t } => Some(((*t, 0), 1)),
                    MapOp::TryFetchMut { t } | MapOp::FetchMut { t } => Some(((*t, 0), 2)),
                    MapOp::TryFetchById { t, kt, kd } if t == kt => Some(((*kt, *kd), 1)),
                    MapOp::TryFetchMutById { t, kt, kd } if t == kt => Some(((*kt, *kd), 2)),
                    MapOp::EntryOrInsert { t, .. } | MapOp::EntryOrInsertWith { t, .. } => Some(((*t, 0), 2)),
                    MapOp::ExecWrite { t } => Some(((*t, 0), 2)),
                    // whether the default provider's setup borrows an existing slot is its own business
                    MapOp::SetupRead { t } => Some(((*t, 0), 4)),
                    MapOp::Remove { t } | MapOp::GetMut { t } => Some(((*t, 0), 3)),
                    MapOp::GetMutRaw { kt, kd } => Some(((*kt, *kd), 3)),
                    MapOp::RemoveById { t, kt, kd } if t == kt => Some(((*kt, *kd), 3)),
                    MapOp::LeakGuard { t, excl } => Some(((*t, 0), if *excl { 2 } else { 1 })),
                    _ => None,
                };
                if let Some((slot, need)) = touch {
                    if let (Some(l), true) = (leaks.get(&slot).cloned(), model.contains_key(&slot)) {
                        if need == 3 {
                            // removing (into_inner) or get_mut-ing a cell whose flag is set trips a debug
                            // assertion of the cell type itself: not part of any property, the op is skipped
                            continue;
                        }
                        if need == 4 {
                            let _ = outcome(|| with_wt!(slot.0, T, world.setup::<Read<T>>()));
                            check_world_vs_model(&mut world, &model, &leaks, step)?;
                            tracker_consistent(&model, step, 0)?;
                            continue;
                        }
                        let conflict = need == 2 || l == 2;
                        if conflict {
                            leak_panics += 1;
                            let t = slot.0;
                            let fresh = C09::fresh_value(&model, t, 77);
                            let r: Result<(), String> = match op {
                                MapOp::TryFetch { .. } => outcome(|| with_wt!(t, T, { world.try_fetch::<T>(); })),
                                MapOp::Fetch { .. } => outcome(|| with_wt!(t, T, { world.fetch::<T>(); })),
                                MapOp::TryFetchMut { .. } => outcome(|| with_wt!(t, T, { world.try_fetch_mut::<T>(); })),
                                MapOp::FetchMut { .. } => outcome(|| with_wt!(t, T, { world.fetch_mut::<T>(); })),
                                MapOp::TryFetchById { .. } => outcome(|| with_wt!(t, T, { world.try_fetch_by_id::<T>(wrid(slot.0, slot.1)); })),
                                MapOp::TryFetchMutById { .. } => outcome(|| with_wt!(t, T, { world.try_fetch_mut_by_id::<T>(wrid(slot.0, slot.1)); })),
                                MapOp::EntryOrInsert { .. } => outcome(|| with_wt!(t, T, { world.entry::<T>().or_insert(T::make(fresh)); })),
                                MapOp::EntryOrInsertWith { .. } => outcome(|| with_wt!(t, T, { world.entry::<T>().or_insert_with(|| T::make(fresh)); })),
                                MapOp::ExecWrite { .. } => outcome(|| with_wt!(t, T, { world.exec(|d: Write<T>| d.id()); })),
                                MapOp::LeakGuard { excl, .. } => outcome(|| with_wt!(t, T, {
                                    if *excl {
                                        std::mem::forget(world.fetch_mut::<T>());
                                    } else {
                                        std::mem::forget(world.fetch::<T>());
                                    }
                                })),
                                _ => Err("skipped".into()),
                            };
                            if r.is_ok() {
                                return Err(bad(format!(
                                    "the call went through although a forgotten {} guard still holds a conflicting borrow of slot {:?} (only replacing or removing the slot may end that borrow)",
                                    if l == 2 { "exclusive" } else { "shared" },
                                    slot
                                )));
                            }
                            check_world_vs_model(&mut world, &model, &leaks, step)?;
                            tracker_consistent(&model, step, 0)?;
                            continue;
                        }
                    }
                }
            }
            match op.clone() {
                MapOp::LeakGuard { t, excl } => {
                    if model.contains_key(&(t, 0)) {
                        with_wt!(t, T, {
                            if excl {
                                std::mem::forget(world.fetch_mut::<T>());
                            } else {
                                std::mem::forget(world.fetch::<T>());
                            }
                        });
                        leaks.insert((t, 0), if excl { 2 } else { 1 });
                    }
                }
                MapOp::Insert { t, v } => {
                    let id = C09::fresh_value(&model, t, v);
                    let r = outcome(|| with_wt!(t, T, world.insert(T::make(id))));
                    r.map_err(|e| bad(format!("insert panicked: {}", e)))?;
                    if model.insert((t, 0), id).is_some() {
                        replaces += 1;
                    }
                }
                MapOp::LeakGuardThenInsert { t, v, excl } => {
                    let id = C09::fresh_value(&model, t, v);
                    let blocked = match leaks.get(&(t, 0)) {
                        Some(2) => true,
                        Some(_) => excl,
                        None => false,
                    };
                    if model.contains_key(&(t, 0)) && !blocked {
                        leaks_n += 1;
                        with_wt!(t, T, {
                            if excl {
                                std::mem::forget(world.fetch_mut::<T>());
                            } else {
                                std::mem::forget(world.fetch::<T>());
                            }
                        });
                    }
                    // insert replaces the slot: the new value is usable whatever happened to
                    // guards of the old one
                    let r = outcome(|| with_wt!(t, T, world.insert(T::make(id))));
                    r.map_err(|e| bad(format!("insert over a slot with a forgotten guard panicked: {}", e)))?;
                    if model.insert((t, 0), id).is_some() {
                        replaces += 1;
                    }
                }
                MapOp::InsertOverBomb { t, v } => {
                    let id = C09::fresh_value(&model, t, v);
                    let old = model.get(&(t, 0)).cloned();
                    let arm = (2..=4).contains(&t) && old.is_some();
                    if arm {
                        BOMB.with(|b| b.set(Some((t, old.unwrap()))));
                    }
                    let r = outcome(|| with_wt!(t, T, world.insert(T::make(id))));
                    BOMB.with(|b| b.set(None));
                    if arm {
                        bombs += 1;
                        if r.is_ok() {
                            return Err(bad("the destructor of the replaced value panicked but insert returned normally".into()));
                        }
                    } else {
                        r.map_err(|e| bad(format!("insert panicked: {}", e)))?;
                    }
                    // insert replaces: the new value is in the map, the old one was dropped once
                    if model.insert((t, 0), id).is_some() {
                        replaces += 1;
                    }
                }
                MapOp::InsertById { t, kt, kd, v } => {
                    let id = C09::fresh_value(&model, t, v);
                    let r = outcome(|| with_wt!(t, T, world.insert_by_id(wrid(kt, kd), T::make(id))));
                    if t != kt {
                        mismatches += 1;
                        if r.is_ok() {
                            return Err(bad("insert_by_id with a type argument that disagrees with the id did not panic".into()));
                        }
                    } else {
                        r.map_err(|e| bad(format!("insert_by_id panicked: {}", e)))?;
                        if model.insert((kt, kd), id).is_some() {
                            replaces += 1;
                        }
                    }
                }
                MapOp::Remove { t } => {
                    let r = outcome(|| with_wt!(t, T, world.remove::<T>().map(|x| x.id())));
                    let got = r.map_err(|e| bad(format!("remove panicked: {}", e)))?;
                    let want = model.remove(&(t, 0));
                    if want.is_some() {
                        removes += 1;
                    }
                    if got != want {
                        return Err(bad(format!("remove returned {:?}, the reference map held {:?}", got, want)));
                    }
                }
                MapOp::RemoveById { t, kt, kd } => {
                    let r = outcome(|| with_wt!(t, T, world.remove_by_id::<T>(wrid(kt, kd)).map(|x| x.id())));
                    if t != kt {
                        mismatches += 1;
                        if r.is_ok() {
                            return Err(bad("remove_by_id with a type argument that disagrees with the id did not panic".into()));
                        }
                    } else {
                        let got = r.map_err(|e| bad(format!("remove_by_id panicked: {}", e)))?;
                        let want = model.remove(&(kt, kd));
                        if want.is_some() {
                            removes += 1;
                        }
                        if got != want {
                            return Err(bad(format!("remove_by_id returned {:?}, the reference map held {:?}", got, want)));
                        }
                    }
                }
                MapOp::EntryOrInsert { t, v } => {
                    let id = C09::fresh_value(&model, t, v);
                    let r = outcome(|| with_wt!(t, T, world.entry::<T>().or_insert(T::make(id)).id()));
                    let got = r.map_err(|e| bad(format!("entry().or_insert panicked: {}", e)))?;
                    let want = *model.entry((t, 0)).or_insert(id);
                    if got != want {
                        return Err(bad(format!("entry().or_insert yields value {}, the reference map holds {} (or_insert must never overwrite)", got, want)));
                    }
                }
                MapOp::EntryOrInsertWith { t, v } => {
                    let id = C09::fresh_value(&model, t, v);
                    let mut called = 0;
                    let r = outcome(|| {
                        with_wt!(t, T, world
                            .entry::<T>()
                            .or_insert_with(|| {
                                called += 1;
                                T::make(id)
                            })
                            .id())
                    });
                    let got = r.map_err(|e| bad(format!("entry().or_insert_with panicked: {}", e)))?;
                    let was_present = model.contains_key(&(t, 0));
                    let want = *model.entry((t, 0)).or_insert(id);
                    if got != want {
                        return Err(bad(format!("entry().or_insert_with yields value {}, the reference map holds {}", got, want)));
                    }
                    if called != if was_present { 0 } else { 1 } {
                        return Err(bad(format!("the or_insert_with closure ran {} times with the slot present={}", called, was_present)));
                    }
                }
                MapOp::HasValue { t } => {
                    let got = with_wt!(t, T, world.has_value::<T>());
                    if got != model.contains_key(&(t, 0)) {
                        return Err(bad(format!("has_value says {}", got)));
                    }
                }
                MapOp::HasValueRaw { kt, kd } => {
                    let got = world.has_value_raw(wrid(kt, kd));
                    if got != model.contains_key(&(kt, kd)) {
                        return Err(bad(format!("has_value_raw says {}", got)));
                    }
                }
                MapOp::GetMut { t } => {
                    let got = with_wt!(t, T, world.get_mut::<T>().map(|x| x.id()));
                    if got != model.get(&(t, 0)).cloned() {
                        return Err(bad(format!("get_mut yields {:?}, reference {:?}", got, model.get(&(t, 0)))));
                    }
                }
                MapOp::GetMutRaw { kt, kd } => {
                    let got = world.get_mut_raw(wrid(kt, kd)).map(|r| (*r).type_id());
                    let want = model.get(&(kt, kd)).map(|_| wtype_id(kt));
                    if got != want {
                        return Err(bad("get_mut_raw yields a value of another type / presence disagrees".into()));
                    }
                }
                MapOp::TryFetch { t } => {
                    let r = outcome(|| with_wt!(t, T, world.try_fetch::<T>().map(|g| g.id())));
                    let got = r.map_err(|e| bad(format!("try_fetch panicked: {}", e)))?;
                    if got != model.get(&(t, 0)).cloned() {
                        return Err(bad(format!("try_fetch yields {:?}, reference {:?}", got, model.get(&(t, 0)))));
                    }
                }
                MapOp::TryFetchMut { t } => {
                    let r = outcome(|| with_wt!(t, T, world.try_fetch_mut::<T>().map(|g| g.id())));
                    let got = r.map_err(|e| bad(format!("try_fetch_mut panicked: {}", e)))?;
                    if got != model.get(&(t, 0)).cloned() {
                        return Err(bad(format!("try_fetch_mut yields {:?}, reference {:?}", got, model.get(&(t, 0)))));
                    }
                }
                MapOp::Fetch { t } => {
                    let r = outcome(|| with_wt!(t, T, world.fetch::<T>().id()));
                    match (r, model.get(&(t, 0))) {
                        (Ok(got), Some(want)) if got == *want => {}
                        (Err(_), None) => {}
                        (r, want) => return Err(bad(format!("fetch gives {:?}, reference {:?} (absent must panic)", r, want))),
                    }
                }
                MapOp::FetchMut { t } => {
                    let r = outcome(|| with_wt!(t, T, world.fetch_mut::<T>().id()));
                    match (r, model.get(&(t, 0))) {
                        (Ok(got), Some(want)) if got == *want => {}
                        (Err(_), None) => {}
                        (r, want) => return Err(bad(format!("fetch_mut gives {:?}, reference {:?} (absent must panic)", r, want))),
                    }
                }
                MapOp::TryFetchById { t, kt, kd } => {
                    let r = outcome(|| with_wt!(t, T, world.try_fetch_by_id::<T>(wrid(kt, kd)).map(|g| g.id())));
                    if t != kt {
                        mismatches += 1;
                        if r.is_ok() {
                            return Err(bad("try_fetch_by_id with a type argument that disagrees with the id did not panic".into()));
                        }
                    } else {
                        let got = r.map_err(|e| bad(format!("try_fetch_by_id panicked: {}", e)))?;
                        if got != model.get(&(kt, kd)).cloned() {
                            return Err(bad(format!("try_fetch_by_id yields {:?}, reference {:?}", got, model.get(&(kt, kd)))));
                        }
                    }
                }
                MapOp::TryFetchMutById { t, kt, kd } => {
                    let r = outcome(|| with_wt!(t, T, world.try_fetch_mut_by_id::<T>(wrid(kt, kd)).map(|g| g.id())));
                    if t != kt {
                        mismatches += 1;
                        if r.is_ok() {
                            return Err(bad("try_fetch_mut_by_id with a type argument that disagrees with the id did not panic".into()));
                        }
                    } else {
                        let got = r.map_err(|e| bad(format!("try_fetch_mut_by_id panicked: {}", e)))?;
                        if got != model.get(&(kt, kd)).cloned() {
                            return Err(bad(format!("try_fetch_mut_by_id yields {:?}, reference {:?}", got, model.get(&(kt, kd)))));
                        }
                    }
                }
                MapOp::SetupRead { t } => {
                    let r = outcome(|| with_wt!(t, T, world.setup::<Read<T>>()));
                    r.map_err(|e| bad(format!("setup panicked: {}", e)))?;
                    if !model.contains_key(&(t, 0)) {
                        // a default value appeared: learn its id from the world
                        let idv = with_wt!(t, T, world.try_fetch::<T>().map(|g| g.id()));
                        match idv {
                            Some(v) => {
                                model.insert((t, 0), v);
                            }
                            None => return Err(bad("setup::<Read<T>> did not create the missing resource".into())),
                        }
                    }
                }
                MapOp::SetupWriteExpect { t } => {
                    let r = outcome(|| with_wt!(t, T, world.setup::<shred::WriteExpect<T>>()));
                    r.map_err(|e| bad(format!("setup panicked: {}", e)))?;
                }
                MapOp::SetupOptionRead { t } => {
                    let r = outcome(|| with_wt!(t, T, world.setup::<Option<Read<T>>>()));
                    r.map_err(|e| bad(format!("setup panicked: {}", e)))?;
                }
                MapOp::ExecWrite { t } => {
                    let r = outcome(|| with_wt!(t, T, world.exec(|d: Write<T>| d.id())));
                    let got = r.map_err(|e| bad(format!("exec panicked: {}", e)))?;
                    match model.get(&(t, 0)) {
                        Some(want) => {
                            if got != *want {
                                return Err(bad(format!("exec sees value {}, reference {}", got, want)));
                            }
                        }
                        None => {
                            model.insert((t, 0), got);
                        }
                    }
                }
                MapOp::ExecProbe { t, declared } | MapOp::SetupProbe { t, declared } => {
                    let is_exec = matches!(op, MapOp::ExecProbe { .. });
                    PROBE_LOG.with(|l| l.borrow_mut().clear());
                    let r = outcome(|| {
                        with_wt!(t, T, {
                            match (is_exec, declared) {
                                (true, true) => world.exec(|d: Prober<T, true>| d.0),
                                (true, false) => world.exec(|d: Prober<T, false>| d.0),
                                (false, true) => {
                                    world.setup::<Prober<T, true>>();
                                    true
                                }
                                (false, false) => {
                                    world.setup::<Prober<T, false>>();
                                    true
                                }
                            }
                        })
                    });
                    let present_at_fetch = r.map_err(|e| bad(format!("panicked: {}", e)))?;
                    let log = PROBE_LOG.with(|l| l.borrow().clone());
                    let want: &[u8] = if is_exec { &[1, 2] } else { &[1] };
                    if log != want {
                        return Err(bad(format!(
                            "calls into the user's SystemData were {:?} (1 = setup, 2 = fetch), expected {:?}: {} is the data's setup{}",
                            log,
                            want,
                            if is_exec { "exec" } else { "setup" },
                            if is_exec { " followed by its fetch" } else { "" }
                        )));
                    }
                    if !present_at_fetch {
                        return Err(bad("the resource provided by the data's setup was not there at its fetch".into()));
                    }
                    if !model.contains_key(&(t, 0)) {
                        match with_wt!(t, T, world.try_fetch::<T>().map(|g| g.id())) {
                            Some(v) => {
                                model.insert((t, 0), v);
                            }
                            None => return Err(bad("the resource inserted by the data's setup is not in the world".into())),
                        }
                    }
                    probes += 1;
                }
            }
            // inserting over a slot replaces its cell: the forgotten guard's borrow is gone with it
            match op {
                MapOp::Insert { t, .. } | MapOp::InsertOverBomb { t, .. } | MapOp::LeakGuardThenInsert { t, .. } => {
                    leaks.remove(&(*t, 0));
                }
                MapOp::InsertById { t, kt, kd, .. } if t == kt => {
                    leaks.remove(&(*kt, *kd));
                }
                _ => {}
            }
            leaks.retain(|k, _| model.contains_key(k));
            check_world_vs_model(&mut world, &model, &leaks, step)?;
            tracker_consistent(&model, step, 0)?;
        }
        drop(std::mem::ManuallyDrop::into_inner(world));
        let empty: Model = BTreeMap::new();
        tracker_consistent(&empty, ops.len(), 0)
            .map_err(|f| Fail::new(format!("after dropping the world: {}", f.msg)))?;
        if mismatches > 0 && replaces > 0 && removes > 0 {
            st.nontrivial(ops, || json!({"mismatching_calls": mismatches, "replaces": replaces, "removes": removes}));
        }
        st.class_n("replaced_value_with_panicking_destructor", bombs);
        st.class_n("replaced_slot_with_forgotten_guard", leaks_n);
        st.class_n("conflicting_ops_on_slot_with_forgotten_guard", leak_panics);
        st.class_n("exec_or_setup_with_user_written_system_data", probes);
        st.class_n("mismatching_id_calls", mismatches);
        st.class_n("replaces", replaces);
        st.class_n("removes_of_present", removes);
        Ok(())
    }

    fn simplify(&self, case: &Vec<MapOp>) -> Vec<Vec<MapOp>> {
        let mut out = vec![];
        if case.len() >= 4 {
            out.push(case[..case.len() / 2].to_vec());
        }
        for i in (0..case.len()).rev() {
            let mut c = case.clone();
            c.remove(i);
            out.push(c);
        }
        out
    }
}

// ------------------------------------------------------------------------------------------------
// C08 (single thread, model-based)

#[derive(Clone, Debug, Serialize, Deserialize, PartialEq)]
pub enum BorrowOp {
    Fetch { t: u8 },
    FetchMut { t: u8 },
    TryFetch { t: u8 },
    TryFetchMut { t: u8 },
    TryFetchById { t: u8, d: u8 },
    TryFetchMutById { t: u8, d: u8 },
    /// system_data::<(Read<A>, Write<B>)>
    DataReadWrite { a: u8, b: u8 },
    /// system_data::<(Option<Write<A>>, Read<B>)>
    DataOptWriteRead { a: u8, b: u8 },
    /// system_data::<Option<Read<A>>>
    DataOptRead { a: u8 },
    /// clone the shared guard in `slot`
    CloneGuard { slot: u8 },
    /// `Clone::clone_from` between two plain shared guards of one type: `dst` lets go of what it
    /// guarded and guards what `src` guards
    CloneFromGuard { dst: u8, src: u8 },
    DropGuard { slot: u8 },
    /// acquire guards inside catch_unwind, then panic while holding them
    PanicHolding { keys: Vec<(u8, u8, bool)> },
    /// a typed try_fetch / try_fetch_mut issued from a destructor that runs while its thread unwinds
    FetchWhileUnwinding { t: u8, excl: bool },
    /// start a meta-table iteration (shared or exclusive) over the registered types
    IterStart { excl: bool },
    /// one `next()` on the running iteration
    IterNext,
    IterEnd,
}

trait Held<'w> {
    fn keys(&self) -> Vec<((u8, u8), bool)>;
    fn canary(&self) -> Vec<(u64, bool)>;
    /// `Fetch::clone` for plain shared guards
    fn try_clone(&self) -> Option<HB<'w>> {
        None
    }
    /// plain shared guards: (type tag, address of the `Fetch`)
    fn shared_raw(&mut self) -> Option<(u8, *mut ())> {
        None
    }
    fn set_dyn(&mut self, _d: u8) {}
    /// `dst.clone_from(self)` if both are plain shared guards of one type
    fn clone_from_into(&self, _dst: &mut dyn Held<'w>) -> bool {
        false
    }
}

type HB<'w> = Box<dyn Held<'w> + 'w>;

struct HS<'a, T: Tracked>(Fetch<'a, T>, u8);
struct HX<'a, T: Tracked>(FetchMut<'a, T>, u8);

impl<'w, T: Tracked> Held<'w> for HS<'w, T> {
    fn try_clone(&self) -> Option<HB<'w>> {
        Some(Box::new(HS::<T>(self.0.clone(), self.1)))
    }
    fn shared_raw(&mut self) -> Option<(u8, *mut ())> {
        Some((T::TY, &mut self.0 as *mut Fetch<'w, T> as *mut ()))
    }
    fn set_dyn(&mut self, d: u8) {
        self.1 = d;
    }
    fn clone_from_into(&self, dst: &mut dyn Held<'w>) -> bool {
        match dst.shared_raw() {
            Some((ty, p)) if ty == T::TY => {
                // SAFETY: the tag says `p` points to a live `Fetch<'w, T>` owned by `dst`
                unsafe { (*(p as *mut Fetch<'w, T>)).clone_from(&self.0) };
                dst.set_dyn(self.1);
                true
            }
            _ => false,
        }
    }
    fn keys(&self) -> Vec<((u8, u8), bool)> {
        vec![((T::TY, self.1), false)]
    }
    fn canary(&self) -> Vec<(u64, bool)> {
        vec![(self.0.id(), self.0.pattern_ok())]
    }
}
impl<'w, T: Tracked> Held<'w> for HX<'w, T> {
    fn keys(&self) -> Vec<((u8, u8), bool)> {
        vec![((T::TY, self.1), true)]
    }
    fn canary(&self) -> Vec<(u64, bool)> {
        vec![(self.0.id(), self.0.pattern_ok())]
    }
}

struct HMulti<'a> {
    parts: Vec<HB<'a>>,
}
impl<'w> Held<'w> for HMulti<'w> {
    fn keys(&self) -> Vec<((u8, u8), bool)> {
        self.parts.iter().flat_map(|p| p.keys()).collect()
    }
    fn canary(&self) -> Vec<(u64, bool)> {
        self.parts.iter().flat_map(|p| p.canary()).collect()
    }
}

/// trait object used by the meta table in the borrow histories
pub trait Named: Send + Sync {
    fn ty(&self) -> u8;
    fn ident(&self) -> u64;
}
macro_rules! named {
    ($($T:ty),*) => {$(
        impl Named for $T {
            fn ty(&self) -> u8 { <$T as Tracked>::TY }
            fn ident(&self) -> u64 { Tracked::id(self) }
        }
        unsafe impl shred::CastFrom<$T> for dyn Named {
            fn cast(t: *mut $T) -> *mut Self { t }
        }
    )*};
}
named!(Z, B1, W8, Big, Heap, Plain, Huge, Aligned);

struct HMetaS<'a>(shred::cell::AtomicRef<'a, dyn Named + 'static>);
struct HMetaX<'a>(shred::cell::AtomicRefMut<'a, dyn Named + 'static>);
impl<'w> Held<'w> for HMetaS<'w> {
    fn keys(&self) -> Vec<((u8, u8), bool)> {
        vec![((self.0.ty(), 0), false)]
    }
    fn canary(&self) -> Vec<(u64, bool)> {
        vec![(self.0.ident(), true)]
    }
}
impl<'w> Held<'w> for HMetaX<'w> {
    fn keys(&self) -> Vec<((u8, u8), bool)> {
        vec![((self.0.ty(), 0), true)]
    }
    fn canary(&self) -> Vec<(u64, bool)> {
        vec![(self.0.ident(), true)]
    }
}

#[derive(Clone, Copy, PartialEq, Eq, Debug)]
enum MCell {
    Free,
    Shared(u32),
    Excl,
}

#[derive(Clone, Debug, Serialize, Deserialize)]
pub struct C08Case {
    /// which of the 15 slots exist
    pub present: Vec<(u8, u8)>,
    /// meta-table registration order (type indices, may repeat)
    pub registered: Vec<u8>,
    pub ops: Vec<BorrowOp>,
}

pub struct C08;

fn value_of(t: u8, d: u8) -> u64 {
    norm_id(t, 10 + t as u64 * 10 + d as u64)
}

struct BorrowModel {
    cells: BTreeMap<(u8, u8), MCell>,
}

impl BorrowModel {
    fn can(&self, key: (u8, u8), excl: bool) -> Option<bool> {
        // None = absent
        self.cells.get(&key).map(|c| match (c, excl) {
            (MCell::Free, _) => true,
            (MCell::Shared(_), false) => true,
            _ => false,
        })
    }
    fn take(&mut self, key: (u8, u8), excl: bool) {
        let c = self.cells.get_mut(&key).unwrap();
        *c = match (*c, excl) {
            (MCell::Free, true) => MCell::Excl,
            (MCell::Free, false) => MCell::Shared(1),
            (MCell::Shared(n), false) => MCell::Shared(n + 1),
            _ => panic!("harness: model take on unavailable cell"),
        };
    }
    fn release(&mut self, key: (u8, u8), excl: bool) {
        let c = self.cells.get_mut(&key).unwrap();
        *c = match (*c, excl) {
            (MCell::Excl, true) => MCell::Free,
            (MCell::Shared(1), false) => MCell::Free,
            (MCell::Shared(n), false) => MCell::Shared(n - 1),
            _ => panic!("harness: model release mismatch"),
        };
    }
}

fn fetch_one<'a>(world: &'a World, t: u8, d: u8, excl: bool, by_id: bool) -> Option<HB<'a>> {
    with_wt!(t, T, {
        if excl {
            let g = if by_id {
                world.try_fetch_mut_by_id::<T>(wrid(t, d))
            } else {
                world.try_fetch_mut::<T>()
            };
            g.map(|g| Box::new(HX::<T>(g, d)) as HB<'a>)
        } else {
            let g = if by_id {
                world.try_fetch_by_id::<T>(wrid(t, d))
            } else {
                world.try_fetch::<T>()
            };
            g.map(|g| Box::new(HS::<T>(g, d)) as HB<'a>)
        }
    })
}

enum IterState<'a> {
    None,
    Shared(shred::MetaIter<'a, dyn Named + 'static>, usize),
    Excl(shred::MetaIterMut<'a, dyn Named + 'static>, usize),
}

impl Prop for C08 {
    type Case = C08Case;
    fn name(&self) -> &'static str {
        "c08-model"
    }
    fn property(&self) -> &'static str {
        "C08"
    }
    fn rule(&self) -> &'static str {
        "single-thread histories (<= 40 steps) over fetch / fetch_mut / try_fetch(_mut) / try_fetch(_mut)_by_id / system_data of tuple and Option shapes / MetaTable::iter and iter_mut stepped one next() at a time / Fetch::clone / drop of any held guard / 'acquire k guards inside catch_unwind then panic', over 5 resource types x 3 dynamic ids each present or absent; oracle: reference machine cell -> Free | Shared(n) | Excl predicts guard / None / panic for every step (None only for absent resources, a conflicting fetch panics, a tuple fetch is all-or-nothing); after every step the real state of all 15 cells (probed through try_fetch_internal) equals the model's and every held guard still dereferences to its value; non-trivial = >= 1 predicted panic and >= 1 release followed by a successful re-borrow; distinct = history hash"
    }
    fn stream_len(&self) -> usize {
        260
    }
    fn journal(&self) -> bool {
        true
    }
    fn gen(&self, src: &mut Src) -> C08Case {
        let mut present = vec![];
        for t in 0..NWT as u8 {
            for d in 0..NWD as u8 {
                if src.chance(12, 16) {
                    present.push((t, d));
                }
            }
        }
        let nreg = src.pick(7);
        let registered: Vec<u8> = (0..nreg).map(|_| src.pick(NWT) as u8).collect();
        let n = src.pick(41);
        let mut ops = vec![];
        for _ in 0..n {
            let t = src.pick(NWT) as u8;
            let d = src.pick(NWD) as u8;
            let op = match src.pick(20) {
                0 => BorrowOp::Fetch { t },
                1 => BorrowOp::FetchMut { t },
                2 => BorrowOp::TryFetch { t },
                3 => BorrowOp::TryFetchMut { t },
                4 | 5 => BorrowOp::TryFetchById { t, d },
                6 | 7 => BorrowOp::TryFetchMutById { t, d },
                8 => BorrowOp::DataReadWrite {
                    a: t,
                    b: src.pick(NWT) as u8,
                },
                9 => BorrowOp::DataOptWriteRead {
                    a: t,
                    b: src.pick(NWT) as u8,
                },
                10 => BorrowOp::DataOptRead { a: t },
                11 => {
                    if src.chance(8, 16) {
                        BorrowOp::CloneGuard {
                            slot: src.pick(8) as u8,
                        }
                    } else {
                        BorrowOp::CloneFromGuard {
                            dst: src.pick(8) as u8,
                            src: src.pick(8) as u8,
                        }
                    }
                }
                12 | 13 | 14 => BorrowOp::DropGuard {
                    slot: src.pick(8) as u8,
                },
                15 => {
                    let k = 1 + src.pick(3);
                    BorrowOp::PanicHolding {
                        keys: (0..k)
                            .map(|_| {
                                (
                                    src.pick(NWT) as u8,
                                    src.pick(NWD) as u8,
                                    src.chance(8, 16),
                                )
                            })
                            .collect(),
                    }
                }
                16 => {
                    if src.chance(5, 16) {
                        BorrowOp::FetchWhileUnwinding {
                            t,
                            excl: src.chance(8, 16),
                        }
                    } else {
                        BorrowOp::IterStart {
                            excl: src.chance(8, 16),
                        }
                    }
                }
                17 | 18 => BorrowOp::IterNext,
                _ => BorrowOp::IterEnd,
            };
            ops.push(op);
        }
        C08Case {
            present,
            registered,
            ops,
        }
    }

    fn check(&self, case: &C08Case, lane: usize, st: &mut Stats) -> Result<(), Fail> {
        tracker_reset();
        z_reset();
        let mut world_md = std::mem::ManuallyDrop::new(World::empty());
        let world = &mut world_md;
        let mut model = BorrowModel {
            cells: BTreeMap::new(),
        };
        for (t, d) in &case.present {
            if *t as usize >= NWT || *d as usize >= NWD {
                continue;
            }
            with_wt!(*t, T, world.insert_by_id(wrid(*t, *d), T::make(value_of(*t, *d))));
            model.cells.insert((*t, *d), MCell::Free);
        }
        let mut table: shred::MetaTable<dyn Named> = shred::MetaTable::new();
        let mut reg_order: Vec<u8> = vec![];
        for t in &case.registered {
            with_wt!(*t, T, table.register::<T>());
            if !reg_order.contains(t) {
                reg_order.push(*t);
            }
        }
        let world: &World = &**world;
        let table = &table;
        let mut held: Vec<Option<HB<'_>>> = (0..8).map(|_| None).collect();
        let mut iter = IterState::None;
        let (mut panics, mut rebor) = (0u64, 0u64);
        let mut released_once: std::collections::BTreeSet<(u8, u8)> = Default::default();
        let mut clone_froms = 0u64;
        let mut iter_on_worker = 0u64;
        let mut worker_pool: Option<crate::build::Pool> = None;

        for (step, op) in case.ops.iter().enumerate() {
            let bad = |what: String| Fail::new(format!("step {} {:?}: {}", step, op, what));
            match op.clone() {
                BorrowOp::TryFetch { t } => single(world, (t, 0), false, false, &mut model, &mut held, &mut panics, &mut rebor, &released_once, &format!("step {} {:?}", step, op))?,
                BorrowOp::TryFetchMut { t } => single(world, (t, 0), true, false, &mut model, &mut held, &mut panics, &mut rebor, &released_once, &format!("step {} {:?}", step, op))?,
                BorrowOp::TryFetchById { t, d } => single(world, (t, d), false, true, &mut model, &mut held, &mut panics, &mut rebor, &released_once, &format!("step {} {:?}", step, op))?,
                BorrowOp::TryFetchMutById { t, d } => single(world, (t, d), true, true, &mut model, &mut held, &mut panics, &mut rebor, &released_once, &format!("step {} {:?}", step, op))?,
                BorrowOp::Fetch { t } | BorrowOp::FetchMut { t } => {
                    let excl = matches!(op, BorrowOp::FetchMut { .. });
                    let key = (t, 0);
                    let r = outcome(|| {
                        with_wt!(t, T, {
                            if excl {
                                Box::new(HX::<T>(world.fetch_mut::<T>(), 0)) as HB<'_>
                            } else {
                                Box::new(HS::<T>(world.fetch::<T>(), 0)) as HB<'_>
                            }
                        })
                    });
                    match (model.can(key, excl), r) {
                        (Some(true), Ok(g)) => {
                            model.take(key, excl);
                            if released_once.contains(&key) {
                                rebor += 1;
                            }
                            if let Some(slot) = held.iter().position(|h| h.is_none()) {
                                held[slot] = Some(g);
                            } else {
                                drop(g);
                                model.release(key, excl);
                            }
                        }
                        (Some(true), Err(e)) => return Err(bad(format!("a fetch that conflicts with nothing panicked: {}", e))),
                        (_, Ok(_)) => return Err(bad("fetch returned a guard although the resource is absent or conflictingly borrowed".into())),
                        (_, Err(_)) => panics += 1,
                    }
                }
                BorrowOp::DataReadWrite { a, b } | BorrowOp::DataOptWriteRead { a, b } => {
                    let opt_write_first = matches!(op, BorrowOp::DataOptWriteRead { .. });
                    // (member key, exclusive, optional)
                    let members: Vec<((u8, u8), bool, bool)> = if opt_write_first {
                        vec![((a, 0), true, true), ((b, 0), false, false)]
                    } else {
                        vec![((a, 0), false, false), ((b, 0), true, false)]
                    };
                    // all-or-nothing prediction, members are fetched left to right
                    let mut trial = BorrowModel {
                        cells: model.cells.clone(),
                    };
                    let mut ok = true;
                    let mut taken: Vec<((u8, u8), bool)> = vec![];
                    for (key, excl, optional) in &members {
                        match trial.can(*key, *excl) {
                            None => {
                                if !*optional {
                                    ok = false;
                                    break;
                                }
                            }
                            Some(false) => {
                                ok = false;
                                break;
                            }
                            Some(true) => {
                                trial.take(*key, *excl);
                                taken.push((*key, *excl));
                            }
                        }
                    }
                    let r = outcome(|| {
                        with_wt!(a, A, {
                            with_wt!(b, B, {
                                if opt_write_first {
                                    let (x, y): (Option<Write<A>>, Read<B>) = world.system_data();
                                    let mut parts: Vec<HB<'_>> = vec![];
                                    if let Some(x) = x {
                                        parts.push(Box::new(HW::<A>(x)));
                                    }
                                    parts.push(Box::new(HR::<B>(y)));
                                    Box::new(HMulti { parts }) as HB<'_>
                                } else {
                                    let (x, y): (Read<A>, Write<B>) = world.system_data();
                                    Box::new(HMulti {
                                        parts: vec![Box::new(HR::<A>(x)), Box::new(HW::<B>(y))],
                                    }) as HB<'_>
                                }
                            })
                        })
                    });
                    match (ok, r) {
                        (true, Ok(g)) => {
                            let got: Vec<((u8, u8), bool)> = g.keys();
                            if got != taken {
                                return Err(bad(format!("the fetched value borrows {:?}, expected {:?}", got, taken)));
                            }
                            model.cells = trial.cells;
                            if let Some(slot) = held.iter().position(|h| h.is_none()) {
                                held[slot] = Some(g);
                            } else {
                                drop(g);
                                for (k, e) in taken {
                                    model.release(k, e);
                                }
                            }
                        }
                        (true, Err(e)) => return Err(bad(format!("system_data that conflicts with nothing panicked: {}", e))),
                        (false, Ok(_)) => return Err(bad("system_data returned although a member is absent or conflictingly borrowed".into())),
                        (false, Err(_)) => panics += 1,
                    }
                }
                BorrowOp::DataOptRead { a } => {
                    let key = (a, 0);
                    let r = outcome(|| {
                        with_wt!(a, A, {
                            let x: Option<Read<A>> = world.system_data();
                            x.map(|x| Box::new(HR::<A>(x)) as HB<'_>)
                        })
                    });
                    match (model.can(key, false), r) {
                        (None, Ok(None)) => {}
                        (Some(true), Ok(Some(g))) => {
                            model.take(key, false);
                            if let Some(slot) = held.iter().position(|h| h.is_none()) {
                                held[slot] = Some(g);
                            } else {
                                drop(g);
                                model.release(key, false);
                            }
                        }
                        (Some(false), Err(_)) => panics += 1,
                        (m, r) => {
                            return Err(bad(format!(
                                "Option<Read> gave {} while the model says {:?}",
                                match r {
                                    Ok(Some(_)) => "a guard",
                                    Ok(None) => "None",
                                    Err(_) => "a panic",
                                },
                                m
                            )))
                        }
                    }
                }
                BorrowOp::CloneGuard { slot } => {
                    let s = slot as usize % held.len();
                    // only plain shared single guards can be cloned: look at the key list
                    let info = held[s].as_ref().map(|h| h.keys());
                    if let Some(keys) = info {
                        if keys.len() == 1 && !keys[0].1 {
                            let (t, d) = keys[0].0;
                            let r = outcome(|| held[s].as_ref().unwrap().try_clone());
                            match r {
                                Ok(Some(g)) => {
                                    model.take((t, d), false);
                                    if let Some(slot) = held.iter().position(|h| h.is_none()) {
                                        held[slot] = Some(g);
                                    } else {
                                        drop(g);
                                        model.release((t, d), false);
                                    }
                                }
                                Ok(None) => {}
                                Err(e) => return Err(bad(format!("cloning a shared guard panicked: {}", e))),
                            }
                        }
                    }
                }
                BorrowOp::CloneFromGuard { dst, src } => {
                    let (di, si) = (dst as usize % held.len(), src as usize % held.len());
                    if di != si && held[si].is_some() {
                        if let Some(mut d) = held[di].take() {
                            let (dk, sk) = (d.keys(), held[si].as_ref().unwrap().keys());
                            let plain = |k: &Vec<((u8, u8), bool)>| k.len() == 1 && !k[0].1;
                            if plain(&dk) && plain(&sk) && dk[0].0 .0 == sk[0].0 .0 {
                                let r = outcome(|| held[si].as_ref().unwrap().clone_from_into(&mut *d));
                                match r {
                                    Ok(true) => {
                                        // the new borrow is taken, the old one let go
                                        model.take(sk[0].0, false);
                                        model.release(dk[0].0, false);
                                        clone_froms += 1;
                                    }
                                    Ok(false) => {}
                                    Err(e) => return Err(bad(format!("clone_from between two shared guards panicked: {}", e))),
                                }
                            }
                            held[di] = Some(d);
                        }
                    }
                }
                BorrowOp::DropGuard { slot } => {
                    let s = slot as usize % held.len();
                    if let Some(g) = held[s].take() {
                        let keys = g.keys();
                        drop(g);
                        for (k, e) in keys {
                            model.release(k, e);
                            released_once.insert(k);
                        }
                    }
                }
                BorrowOp::PanicHolding { keys } => {
                    // acquire what the model allows, then unwind through the guards
                    let mut trial = BorrowModel {
                        cells: model.cells.clone(),
                    };
                    let mut plan = vec![];
                    for (t, d, e) in keys {
                        if trial.can((t, d), e) == Some(true) {
                            trial.take((t, d), e);
                            plan.push((t, d, e));
                        }
                    }
                    let r = outcome(|| {
                        let mut tmp: Vec<HB<'_>> = vec![];
                        for (t, d, e) in &plan {
                            if let Some(g) = fetch_one(world, *t, *d, *e, true) {
                                tmp.push(g);
                            }
                        }
                        if tmp.len() == plan.len() {
                            std::panic::panic_any(PlannedPanic);
                        }
                        tmp.len()
                    });
                    match r {
                        Err(_) => {}
                        Ok(n) => return Err(bad(format!("only {} of {} available guards could be acquired", n, plan.len()))),
                    }
                    // model unchanged: unwinding released everything
                }
                BorrowOp::FetchWhileUnwinding { t, excl } => {
                    // 0 = guard, 1 = None, 2 = panic
                    let rec = std::cell::Cell::new(9u8);
                    struct Probe<'w, 'r> {
                        world: &'w World,
                        t: u8,
                        excl: bool,
                        rec: &'r std::cell::Cell<u8>,
                    }
                    impl Drop for Probe<'_, '_> {
                        fn drop(&mut self) {
                            let (w, t, excl) = (self.world, self.t, self.excl);
                            let r = catch_unwind(AssertUnwindSafe(|| {
                                with_wt!(t, T, {
                                    if excl {
                                        w.try_fetch_mut::<T>().is_some()
                                    } else {
                                        w.try_fetch::<T>().is_some()
                                    }
                                })
                            }));
                            self.rec.set(match r {
                                Ok(true) => 0,
                                Ok(false) => 1,
                                Err(_) => 2,
                            });
                        }
                    }
                    let _ = catch_unwind(AssertUnwindSafe(|| {
                        let _p = Probe {
                            world,
                            t,
                            excl,
                            rec: &rec,
                        };
                        std::panic::panic_any(PlannedPanic);
                    }));
                    let want = match model.can((t, 0), excl) {
                        None => 1,
                        Some(true) => 0,
                        Some(false) => 2,
                    };
                    if want == 2 {
                        panics += 1;
                    }
                    if rec.get() != want {
                        let name = |x: u8| ["a guard", "None", "a panic", "?"][(x as usize).min(3)];
                        return Err(bad(format!(
                            "a fetch issued from a destructor while the thread unwinds gave {}, the reference machine says {} (None is only for absent resources)",
                            name(rec.get()),
                            name(want)
                        )));
                    }
                }
                BorrowOp::IterStart { excl } => {
                    iter = if excl {
                        IterState::Excl(table.iter_mut(world), 0)
                    } else {
                        IterState::Shared(table.iter(world), 0)
                    };
                }
                BorrowOp::IterEnd => {
                    iter = IterState::None;
                }
                BorrowOp::IterNext => {
                    // model: advance over registered types that are absent at dynamic id 0
                    let (pos, excl) = match &iter {
                        IterState::None => continue,
                        IterState::Shared(_, p) => (*p, false),
                        IterState::Excl(_, p) => (*p, true),
                    };
                    let mut p = pos;
                    while p < reg_order.len() && !model.cells.contains_key(&(reg_order[p], 0)) {
                        p += 1;
                    }
                    let expect: Option<(u8, bool)> = if p < reg_order.len() {
                        Some((reg_order[p], model.can((reg_order[p], 0), excl) == Some(true)))
                    } else {
                        None
                    };
                    // every fourth step of an iteration is taken on a worker of a rayon pool (where systems
                    // that walk a meta table run)
                    let on_worker = step % 4 == 1;
                    if on_worker {
                        iter_on_worker += 1;
                    }
                    let tp = worker_pool.get_or_insert_with(|| crate::build::pool(lane + 40, 1));
                    let r = outcome(|| match &mut iter {
                        IterState::Shared(it, _) => {
                            let g = if on_worker { tp.install(|| it.next()) } else { it.next() };
                            g.map(|g| Box::new(HMetaS(g)) as HB<'_>)
                        }
                        IterState::Excl(it, _) => {
                            let g = if on_worker { tp.install(|| it.next()) } else { it.next() };
                            g.map(|g| Box::new(HMetaX(g)) as HB<'_>)
                        }
                        IterState::None => None,
                    });
                    let newpos = if p < reg_order.len() { p + 1 } else { p };
                    match &mut iter {
                        IterState::Shared(_, q) | IterState::Excl(_, q) => *q = newpos,
                        IterState::None => {}
                    }
                    match (expect, r) {
                        (None, Ok(None)) => {}
                        (Some((t, true)), Ok(Some(g))) => {
                            let keys = g.keys();
                            if keys != vec![((t, 0), excl)] {
                                return Err(bad(format!("the iterator yielded {:?}, expected type {} (first-registration order, present ones only)", keys, t)));
                            }
                            if g.canary()[0].0 != value_of(t, 0) {
                                return Err(bad("the trait object yielded by the iterator does not denote the stored resource".into()));
                            }
                            model.take((t, 0), excl);
                            if let Some(slot) = held.iter().position(|h| h.is_none()) {
                                held[slot] = Some(g);
                            } else {
                                drop(g);
                                model.release((t, 0), excl);
                            }
                        }
                        (Some((_, false)), Err(_)) => panics += 1,
                        (e, r) => {
                            return Err(bad(format!(
                                "meta iteration gave {} while the model expects {:?}",
                                match r {
                                    Ok(Some(_)) => "an item",
                                    Ok(None) => "the end",
                                    Err(_) => "a panic",
                                },
                                e
                            )))
                        }
                    }
                }
            }
            // real cell states equal the model's, all held guards still see their value
            for t in 0..NWT as u8 {
                for d in 0..NWD as u8 {
                    let real = wprobe(world, t, d);
                    let want = match model.cells.get(&(t, d)) {
                        None => Cell::Absent,
                        Some(MCell::Free) => Cell::Free,
                        Some(MCell::Shared(_)) => Cell::Shared,
                        Some(MCell::Excl) => Cell::Excl,
                    };
                    if real != want {
                        return Err(bad(format!(
                            "cell (type {}, dynamic id {}) is really {:?}, the reference machine says {:?}",
                            t, d, real, want
                        )));
                    }
                }
            }
            for h in held.iter().flatten() {
                for (((t, d), _), (idv, ok)) in h.keys().into_iter().zip(h.canary()) {
                    if idv != value_of(t, d) || !ok {
                        return Err(bad(format!(
                            "a held guard on (type {}, dynamic id {}) no longer dereferences to its value",
                            t, d
                        )));
                    }
                }
            }
        }
        drop(iter);
        held.clear();
        for t in 0..NWT as u8 {
            for d in 0..NWD as u8 {
                let real = wprobe(world, t, d);
                if real != Cell::Free && real != Cell::Absent {
                    return Err(Fail::new(format!(
                        "after dropping every guard cell (type {}, dynamic id {}) is still {:?}",
                        t, d, real
                    )));
                }
            }
        }
        st.class_n("predicted_panics", panics);
        st.class_n("reborrows_after_release", rebor);
        st.class_n("clone_from_between_shared_guards", clone_froms);
        st.class_n("iteration_steps_taken_on_a_pool_worker", iter_on_worker);
        if panics > 0 && rebor > 0 {
            st.nontrivial(case, || json!({"predicted_panics": panics, "reborrows": rebor}));
        }
        // every guard is gone and every cell probed free: the world itself goes now (a case that
        // ends in a failure above keeps its world alive on purpose: guards may still point into it)
        drop(held);
        drop(std::mem::ManuallyDrop::into_inner(world_md));
        Ok(())
    }

    fn simplify(&self, case: &C08Case) -> Vec<C08Case> {
        let mut out = vec![];
        for i in (0..case.ops.len()).rev() {
            let mut c = case.clone();
            c.ops.remove(i);
            out.push(c);
        }
        for i in (0..case.registered.len()).rev() {
            let mut c = case.clone();
            c.registered.remove(i);
            out.push(c);
        }
        out
    }
}

struct PlannedPanic;

/// one acquisition through a try_ form: guard / None / panic as the reference machine predicts
#[allow(clippy::too_many_arguments)]
fn single<'w>(
    world: &'w World,
    key: (u8, u8),
    excl: bool,
    by_id: bool,
    model: &mut BorrowModel,
    held: &mut Vec<Option<HB<'w>>>,
    panics: &mut u64,
    rebor: &mut u64,
    released_once: &std::collections::BTreeSet<(u8, u8)>,
    ctx: &str,
) -> Result<(), Fail> {
    let bad = |what: String| Fail::new(format!("{}: {}", ctx, what));
    let r = outcome(|| fetch_one(world, key.0, key.1, excl, by_id));
    match model.can(key, excl) {
        None => match r {
            Ok(None) => Ok(()),
            Ok(Some(_)) => Err(bad("a guard was returned for an absent resource".into())),
            Err(e) => Err(bad(format!(
                "fetching an absent resource through a try_ form panicked: {}",
                e
            ))),
        },
        Some(false) => {
            *panics += 1;
            match r {
                Err(_) => Ok(()),
                Ok(Some(_)) => Err(bad("an aliasing guard was returned instead of a panic".into())),
                Ok(None) => Err(bad(
                    "None was returned for a present but conflictingly borrowed resource (must panic)".into(),
                )),
            }
        }
        Some(true) => match r {
            Ok(Some(g)) => {
                model.take(key, excl);
                if released_once.contains(&key) {
                    *rebor += 1;
                }
                if let Some(slot) = held.iter().position(|h| h.is_none()) {
                    held[slot] = Some(g);
                } else {
                    drop(g);
                    model.release(key, excl);
                }
                Ok(())
            }
            Ok(None) => Err(bad("None was returned for a present, available resource".into())),
            Err(e) => Err(bad(format!("a fetch that conflicts with nothing panicked: {}", e))),
        },
    }
}

struct HR<'a, T: Tracked>(Read<'a, T>);
struct HW<'a, T: Tracked>(Write<'a, T>);
impl<'w, T: Tracked> Held<'w> for HR<'w, T> {
    fn keys(&self) -> Vec<((u8, u8), bool)> {
        vec![((T::TY, 0), false)]
    }
    fn canary(&self) -> Vec<(u64, bool)> {
        vec![(self.0.id(), self.0.pattern_ok())]
    }
}
impl<'w, T: Tracked> Held<'w> for HW<'w, T> {
    fn keys(&self) -> Vec<((u8, u8), bool)> {
        vec![((T::TY, 0), true)]
    }
    fn canary(&self) -> Vec<(u64, bool)> {
        vec![(self.0.id(), self.0.pattern_ok())]
    }
}


fn _unused<T: Resource>() {}
