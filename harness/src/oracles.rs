//! Layout-level validity predicates (reference semantics of 1.4 applied to the *real* layout).

use std::collections::BTreeMap;

use crate::conductor::{Layout, LayoutSet};
use crate::driver::Fail;
use crate::plan::Flat;

pub struct Pos {
    /// sys -> (stage, group, position)
    pub of: BTreeMap<usize, (usize, usize, usize)>,
}

pub fn positions(l: &Layout) -> Pos {
    let mut of = BTreeMap::new();
    for (s, st) in l.stages.iter().enumerate() {
        for (g, gr) in st.iter().enumerate() {
            for (p, x) in gr.iter().enumerate() {
                of.insert(*x, (s, g, p));
            }
        }
    }
    Pos { of }
}

fn before(pos: &Pos, a: usize, b: usize) -> bool {
    match (pos.of.get(&a), pos.of.get(&b)) {
        (Some(&(sa, ga, pa)), Some(&(sb, gb, pb))) => sa < sb || (sa == sb && ga == gb && pa < pb),
        _ => false,
    }
}

/// C04 (layout part): every registered system appears exactly once in the executed lists.
pub fn check_complete(flat: &Flat, ls: &LayoutSet) -> Result<(), Fail> {
    for b in &flat.builders {
        let l = ls
            .by_bid
            .get(&b.bid)
            .ok_or_else(|| Fail::new(format!("no layout recovered for builder {}", b.bid)))?;
        let mut seen: BTreeMap<usize, usize> = BTreeMap::new();
        for st in &l.stages {
            if st.is_empty() {
                return Err(Fail::new(format!("builder {}: empty stage in executed plan", b.bid)));
            }
            for g in st {
                if g.is_empty() {
                    return Err(Fail::new(format!(
                        "builder {}: empty group in executed plan",
                        b.bid
                    )));
                }
                for x in g {
                    *seen.entry(*x).or_insert(0) += 1;
                }
            }
        }
        for m in &b.members {
            match seen.get(m) {
                Some(1) => {}
                Some(n) => {
                    return Err(Fail::new(format!(
                        "system {} appears {} times in the executed plan",
                        flat.sys[*m].sid(),
                        n
                    )))
                }
                None => {
                    return Err(Fail::new(format!(
                        "system {} is missing from the executed plan",
                        flat.sys[*m].sid()
                    )))
                }
            }
        }
        if seen.len() != b.members.len() {
            return Err(Fail::new(format!(
                "builder {}: executed plan holds {} distinct systems, {} were registered",
                b.bid,
                seen.len(),
                b.members.len()
            )));
        }
        if l.tl != b.tls {
            return Err(Fail::new(format!(
                "builder {}: thread-local list is {:?}, registered order is {:?}",
                b.bid, l.tl, b.tls
            )));
        }
    }
    Ok(())
}

/// C01-A: no two systems in different groups of one stage conflict.
pub fn check_isolation(flat: &Flat, ls: &LayoutSet) -> Result<(), Fail> {
    for (bid, l) in &ls.by_bid {
        for (s, st) in l.stages.iter().enumerate() {
            for g1 in 0..st.len() {
                for g2 in g1 + 1..st.len() {
                    for &a in &st[g1] {
                        for &b in &st[g2] {
                            if flat.conflict(a, b) {
                                return Err(Fail::new(format!(
                                    "builder {} stage {}: conflicting systems {} and {} are in different groups ({} and {}) of one stage",
                                    bid, s, flat.sys[a].sid(), flat.sys[b].sid(), g1, g2
                                )));
                            }
                        }
                    }
                }
            }
        }
    }
    Ok(())
}

/// C02-A: every declared edge A -> B has A strictly before B in the executed plan.
pub fn check_deps(flat: &Flat, ls: &LayoutSet) -> Result<(), Fail> {
    for (bid, l) in &ls.by_bid {
        let pos = positions(l);
        for &x in &flat.builders[*bid].members {
            for &d in &flat.sys[x].deps {
                if !before(&pos, d, x) {
                    return Err(Fail::new(format!(
                        "builder {}: {} depends on {} but is placed at {:?} while the dependency is at {:?}",
                        bid,
                        flat.sys[x].sid(),
                        flat.sys[d].sid(),
                        pos.of.get(&x),
                        pos.of.get(&d)
                    )));
                }
            }
        }
    }
    Ok(())
}

/// C03-A: systems of an earlier barrier segment sit in strictly earlier stages.
pub fn check_barriers(flat: &Flat, ls: &LayoutSet) -> Result<(), Fail> {
    for (bid, l) in &ls.by_bid {
        let pos = positions(l);
        // max stage per segment / min stage per segment
        let mut max_of: BTreeMap<usize, (usize, usize)> = BTreeMap::new();
        let mut min_of: BTreeMap<usize, (usize, usize)> = BTreeMap::new();
        for &x in &flat.builders[*bid].members {
            if let Some(&(s, _, _)) = pos.of.get(&x) {
                let seg = flat.sys[x].seg;
                let e = max_of.entry(seg).or_insert((s, x));
                if s > e.0 {
                    *e = (s, x);
                }
                let e = min_of.entry(seg).or_insert((s, x));
                if s < e.0 {
                    *e = (s, x);
                }
            }
        }
        for (sa, (mx, xa)) in &max_of {
            for (sb, (mn, xb)) in &min_of {
                if sa < sb && mx >= mn {
                    return Err(Fail::new(format!(
                        "builder {}: {} (before barrier, stage {}) is not in an earlier stage than {} (after barrier, stage {})",
                        bid,
                        flat.sys[*xa].sid(),
                        mx,
                        flat.sys[*xb].sid(),
                        mn
                    )));
                }
            }
        }
    }
    Ok(())
}

#[derive(Default)]
pub struct NeedlessInfo {
    pub skipped_systems: usize,
    pub compatible_segments: usize,
}

/// C10: a later stage only when something forces it.
pub fn check_needless(flat: &Flat, ls: &LayoutSet, info: &mut NeedlessInfo) -> Result<(), Fail> {
    for (bid, l) in &ls.by_bid {
        let pos = positions(l);
        let members = &flat.builders[*bid].members;
        // first stage available to each segment
        let mut base: BTreeMap<usize, usize> = BTreeMap::new();
        for &x in members {
            let seg = flat.sys[x].seg;
            let b = members
                .iter()
                .filter(|y| flat.sys[**y].seg < seg)
                .filter_map(|y| pos.of.get(y).map(|p| p.0 + 1))
                .max()
                .unwrap_or(0);
            base.insert(seg, b);
        }
        for &x in members {
            let sx = match pos.of.get(&x) {
                Some(p) => p.0,
                None => continue,
            };
            let b = base[&flat.sys[x].seg];
            if sx > b {
                info.skipped_systems += 1;
            }
            for s in b..sx {
                let conflict_here = l.stages[s].iter().flatten().any(|&y| {
                    flat.sys[y].pos < flat.sys[x].pos && flat.conflict(x, y)
                });
                let dep_here_or_later = flat.sys[x]
                    .deps
                    .iter()
                    .any(|d| pos.of.get(d).map(|p| p.0 >= s).unwrap_or(false));
                if !conflict_here && !dep_here_or_later {
                    let key = if flat.sys[x].dup_deps {
                        "dup-dep"
                    } else if flat.sys[x]
                        .deps
                        .iter()
                        .any(|d| flat.sys[*d].seg < flat.sys[x].seg)
                    {
                        "dep-before-barrier"
                    } else {
                        "other"
                    };
                    return Err(Fail::keyed(
                        key,
                        format!(
                            "builder {}: {} is in stage {} but nothing forces it past stage {} (first allowed stage {}; no earlier-registered conflicting system there, no dependency in that stage or later)",
                            bid,
                            flat.sys[x].sid(),
                            sx,
                            s,
                            b
                        ),
                    ));
                }
            }
        }
        // corollary: a segment of pairwise compatible, dependency-free systems is one stage
        let mut segs: BTreeMap<usize, Vec<usize>> = BTreeMap::new();
        for &x in members {
            segs.entry(flat.sys[x].seg).or_default().push(x);
        }
        for (seg, xs) in &segs {
            if xs.len() < 2 {
                continue;
            }
            let free = xs.iter().all(|x| flat.sys[*x].deps.is_empty())
                && xs
                    .iter()
                    .all(|a| xs.iter().all(|b| a == b || !flat.conflict(*a, *b)));
            if free {
                if xs.len() >= 3 {
                    info.compatible_segments += 1;
                }
                let stages: std::collections::BTreeSet<usize> =
                    xs.iter().filter_map(|x| pos.of.get(x).map(|p| p.0)).collect();
                if stages.len() > 1 {
                    return Err(Fail::new(format!(
                        "builder {} segment {}: pairwise compatible dependency-free systems are spread over stages {:?}",
                        bid, seg, stages
                    )));
                }
            }
        }
    }
    Ok(())
}

pub fn describe(flat: &Flat, ls: &LayoutSet) -> serde_json::Value {
    let mut m = serde_json::Map::new();
    for (bid, l) in &ls.by_bid {
        let stages: Vec<Vec<Vec<String>>> = l
            .stages
            .iter()
            .map(|s| {
                s.iter()
                    .map(|g| g.iter().map(|x| flat.sys[*x].sid()).collect())
                    .collect()
            })
            .collect();
        let tl: Vec<String> = l.tl.iter().map(|x| flat.sys[*x].sid()).collect();
        m.insert(
            format!("builder{}", bid),
            serde_json::json!({ "stages": stages, "thread_local": tl }),
        );
    }
    serde_json::Value::Object(m)
}
