//! C06: the generated inputs are *programs*. Type descriptors are drawn from a grammar, written to
//! /verif/gen06/src/generated.rs together with the access each must have by the harness's own
//! composition rules, compiled against /repo and run.

use std::collections::BTreeSet;
use std::process::Command;
use std::time::Instant;

use proptest::collection::vec as pvec;
use proptest::prelude::any;
use proptest::strategy::{Strategy, ValueTree};
use proptest::test_runner::{Config, RngSeed, TestRunner};
use serde::{Deserialize, Serialize};
use serde_json::json;

use crate::driver::{verif_dir, Stats, SubResult, Violation};
use crate::plan::Src;

pub const NR: usize = 48;

#[derive(Clone, Debug, Serialize, Deserialize, PartialEq)]
pub enum Ty {
    Read(usize),
    Write(usize),
    ReadExpect(usize),
    WriteExpect(usize),
    /// Read with custom handler number k
    ReadH(usize, usize),
    WriteH(usize, usize),
    OptRead(usize),
    OptWrite(usize),
    Unit,
    Phantom,
    Tuple(Vec<Ty>),
    /// #[derive(SystemData)] struct with named fields; variant 0 plain, 1 extra lifetime,
    /// 2 type parameter with bound, 3 type parameter with where-clause
    DeriveNamed(u8, Vec<Ty>),
    DeriveTuple(u8, Vec<Ty>),
    /// one derived struct with a const generic parameter that selects the resource it writes,
    /// instantiated with this constant
    ConstLane(usize),
}

struct Alloc {
    next_res: usize,
    next_handler: usize,
    start: usize,
    /// resources already used by a read-like member of the type under construction
    read_used: Vec<usize>,
}

impl Alloc {
    fn res(&mut self) -> Option<usize> {
        if self.next_res >= NR {
            return None;
        }
        let r = (self.start + self.next_res) % NR;
        self.next_res += 1;
        Some(r)
    }
    fn handler(&mut self) -> usize {
        self.next_handler += 1;
        self.next_handler
    }
}

fn gen_leaf(src: &mut Src, a: &mut Alloc) -> Ty {
    let kind = src.pick(10);
    if kind >= 8 {
        return if kind == 8 { Ty::Unit } else { Ty::Phantom };
    }
    // one read-like member in six names a resource that another read-like member of the same type
    // names already (several shared borrows of one resource, possibly through different accessor
    // kinds: default-providing, expecting, optional, custom handler)
    if matches!(kind, 0 | 2 | 4 | 6) && !a.read_used.is_empty() && src.chance(3, 16) {
        let r = a.read_used[src.pick(a.read_used.len())];
        return match kind {
            0 => Ty::Read(r),
            2 => Ty::ReadExpect(r),
            4 => Ty::ReadH(r, a.handler()),
            _ => Ty::OptRead(r),
        };
    }
    let got = a.res();
    if let (Some(r), true) = (got, matches!(kind, 0 | 2 | 4 | 6)) {
        a.read_used.push(r);
    }
    match got {
        None => Ty::Unit,
        Some(r) => match kind {
            0 => Ty::Read(r),
            1 => Ty::Write(r),
            2 => Ty::ReadExpect(r),
            3 => Ty::WriteExpect(r),
            4 => Ty::ReadH(r, a.handler()),
            5 => Ty::WriteH(r, a.handler()),
            6 => Ty::OptRead(r),
            _ => Ty::OptWrite(r),
        },
    }
}

fn gen_ty(src: &mut Src, a: &mut Alloc, depth: usize, arity: Option<usize>) -> Ty {
    if depth >= 3 || (depth > 0 && src.chance(10, 16)) {
        return gen_leaf(src, a);
    }
    let n = arity.unwrap_or_else(|| 1 + src.pick(if depth == 0 { 8 } else { 4 }));
    let mut members: Vec<Ty> = vec![];
    while members.len() < n {
        let m = gen_ty(src, a, depth + 1, None);
        // now and then the very same read-like member twice in a row (same resource, same accessor
        // kind, same custom handler)
        let twice = matches!(m, Ty::Read(_) | Ty::ReadExpect(_) | Ty::ReadH(..) | Ty::OptRead(_))
            && members.len() + 2 <= n
            && src.chance(2, 16);
        if twice {
            members.push(m.clone());
        }
        members.push(m);
    }
    if arity.is_some() {
        return Ty::Tuple(members);
    }
    match src.pick(6) {
        0 | 1 | 2 => Ty::Tuple(members),
        3 | 4 => Ty::DeriveNamed(src.pick(5) as u8, members),
        _ => Ty::DeriveTuple(src.pick(2) as u8, members),
    }
}

pub fn gen_desc(stream: &[u16], arity: Option<usize>) -> Ty {
    let mut src = Src::new(stream);
    let mut a = Alloc {
        next_res: 0,
        next_handler: 0,
        start: src.pick(NR),
        read_used: vec![],
    };
    gen_ty(&mut src, &mut a, 0, arity)
}

/// a derived struct with more fields than the largest tuple the library implements (27..52 leaves)
pub fn gen_big_derive(stream: &[u16], named: bool) -> Ty {
    let mut src = Src::new(stream);
    let mut a = Alloc {
        next_res: 0,
        next_handler: 0,
        start: src.pick(NR),
        read_used: vec![],
    };
    let n = 27 + src.pick(26);
    let members: Vec<Ty> = (0..n).map(|_| gen_leaf(&mut src, &mut a)).collect();
    if named {
        Ty::DeriveNamed(0, members)
    } else {
        Ty::DeriveTuple(0, members)
    }
}

// ---- the harness's own composition rules ---------------------------------------------------------

pub fn reads(t: &Ty) -> Vec<usize> {
    match t {
        Ty::Read(r) | Ty::ReadExpect(r) | Ty::ReadH(r, _) | Ty::OptRead(r) => vec![*r],
        Ty::Tuple(m) | Ty::DeriveNamed(_, m) | Ty::DeriveTuple(_, m) => m.iter().flat_map(reads).collect(),
        _ => vec![],
    }
}
pub fn writes(t: &Ty) -> Vec<usize> {
    match t {
        Ty::Write(r) | Ty::WriteExpect(r) | Ty::WriteH(r, _) | Ty::OptWrite(r) | Ty::ConstLane(r) => vec![*r],
        Ty::Tuple(m) | Ty::DeriveNamed(_, m) | Ty::DeriveTuple(_, m) => m.iter().flat_map(writes).collect(),
        _ => vec![],
    }
}
pub fn provides(t: &Ty) -> Vec<usize> {
    match t {
        Ty::Read(r) | Ty::Write(r) | Ty::ReadH(r, _) | Ty::WriteH(r, _) | Ty::ConstLane(r) => vec![*r],
        Ty::Tuple(m) | Ty::DeriveNamed(_, m) | Ty::DeriveTuple(_, m) => m.iter().flat_map(provides).collect(),
        _ => vec![],
    }
}
fn optional_members(t: &Ty) -> Vec<usize> {
    match t {
        Ty::OptRead(r) | Ty::OptWrite(r) => vec![*r],
        Ty::Tuple(m) | Ty::DeriveNamed(_, m) | Ty::DeriveTuple(_, m) => m.iter().flat_map(optional_members).collect(),
        _ => vec![],
    }
}
fn mandatory_members(t: &Ty) -> Vec<usize> {
    match t {
        Ty::Read(r) | Ty::Write(r) | Ty::ReadExpect(r) | Ty::WriteExpect(r) | Ty::ReadH(r, _) | Ty::WriteH(r, _) | Ty::ConstLane(r) => vec![*r],
        Ty::Tuple(m) | Ty::DeriveNamed(_, m) | Ty::DeriveTuple(_, m) => m.iter().flat_map(mandatory_members).collect(),
        _ => vec![],
    }
}
/// resources reached ONLY through Option forms
pub fn optional(t: &Ty) -> Vec<usize> {
    let must = mandatory_members(t);
    let mut v: Vec<usize> = optional_members(t).into_iter().filter(|r| !must.contains(r)).collect();
    v.sort();
    v.dedup();
    v
}
pub fn handlers(t: &Ty) -> Vec<usize> {
    match t {
        Ty::ReadH(_, k) | Ty::WriteH(_, k) => vec![*k],
        Ty::Tuple(m) | Ty::DeriveNamed(_, m) | Ty::DeriveTuple(_, m) => m.iter().flat_map(handlers).collect(),
        _ => vec![],
    }
}
pub fn subterms(t: &Ty, out: &mut Vec<Ty>) {
    out.push(t.clone());
    if let Ty::Tuple(m) | Ty::DeriveNamed(_, m) | Ty::DeriveTuple(_, m) = t {
        for x in m {
            subterms(x, out);
        }
    }
}
pub fn size(t: &Ty) -> usize {
    match t {
        Ty::Tuple(m) | Ty::DeriveNamed(_, m) | Ty::DeriveTuple(_, m) => 1 + m.iter().map(size).sum::<usize>(),
        _ => 1,
    }
}
fn depth(t: &Ty) -> usize {
    match t {
        Ty::Tuple(m) | Ty::DeriveNamed(_, m) | Ty::DeriveTuple(_, m) => 1 + m.iter().map(depth).max().unwrap_or(0),
        _ => 0,
    }
}

// ---- code emission ------------------------------------------------------------------------------

/// the two-lifetime derive shape is only emitted for flat structs with a borrowing member (rustc's
/// inference rejects some nested instantiations; that is a limit of user code, not a library fault)
fn effective_variant(variant: u8, members: &[Ty]) -> u8 {
    if variant == 1 {
        let flat = members
            .iter()
            .all(|m| !matches!(m, Ty::Tuple(_) | Ty::DeriveNamed(..) | Ty::DeriveTuple(..)));
        let borrows = members.iter().any(|m| !reads(m).is_empty() || !writes(m).is_empty());
        if !(flat && borrows) {
            return 0;
        }
    }
    variant
}

struct Emit {
    defs: String,
    n_struct: usize,
    n_tuple: usize,
}

impl Emit {
    /// Rust type expression for `t` with fetch lifetime 'a
    fn ty(&mut self, t: &Ty, case: usize) -> String {
        match t {
            // the same member type through different spellings: plain path, a type-position macro,
            // a generic alias, a fully qualified path
            Ty::Read(r) => match r % 4 {
                1 => format!("Rd!('a, R<{}>)", r),
                2 => format!("RdA<'a, {}>", r),
                3 => format!("::shred::Read<'a, R<{}>>", r),
                _ => format!("Read<'a, R<{}>>", r),
            },
            Ty::Write(r) => match r % 4 {
                2 => format!("Wr!('a, R<{}>)", r),
                3 => format!("WrA<'a, {}>", r),
                0 => format!("::shred::Write<'a, R<{}>>", r),
                _ => format!("Write<'a, R<{}>>", r),
            },
            Ty::ReadExpect(r) => format!("ReadExpect<'a, R<{}>>", r),
            Ty::WriteExpect(r) => format!("WriteExpect<'a, R<{}>>", r),
            Ty::ReadH(r, k) => format!("Read<'a, R<{}>, H<{}>>", r, k),
            Ty::WriteH(r, k) => format!("Write<'a, R<{}>, H<{}>>", r, k),
            Ty::OptRead(r) => format!("Option<Read<'a, R<{}>>>", r),
            Ty::OptWrite(r) => format!("Option<Write<'a, R<{}>>>", r),
            Ty::Unit => "()".into(),
            Ty::Phantom => "PhantomData<u32>".into(),
            Ty::ConstLane(r) => format!("GLane<'a, {}>", r),
            Ty::Tuple(m) => {
                let parts: Vec<String> = m.iter().map(|x| self.ty(x, case)).collect();
                let plain = format!("({},)", parts.join(", "));
                // every third resource-bearing tuple is named through an alias that is called like
                // one of the library's own accessor types, and says the opposite of what it holds
                let (has_r, has_w) = (!reads(t).is_empty(), !writes(t).is_empty());
                if has_r || has_w {
                    self.n_tuple += 1;
                    if self.n_tuple % 3 == 0 {
                        // ... or like `Option`-something although nothing about it is optional
                        if self.n_tuple / 3 % 4 == 3 {
                            // ... or, at the top level, like `Option`-something although nothing about
                            // it is optional
                            let name = format!(
                                "{}{}",
                                ["OptionalParts", "Options", "OptionData"][self.n_tuple / 12 % 3],
                                self.n_tuple
                            );
                            self.defs.push_str(&format!("pub type {}<'a> = {};\n", name, plain));
                            return format!("{}<'a>", name);
                        }
                        let name = if has_w {
                            ["Read", "ReadExpect"][self.n_tuple / 3 % 2]
                        } else {
                            ["Write", "WriteExpect", "PhantomData"][self.n_tuple / 3 % 3]
                        };
                        let module = format!("lk{}", self.n_tuple);
                        // the body lives outside the module, where the names still mean the library's types
                        self.defs.push_str(&format!(
                            "pub type Body{}<'a> = {};\npub mod {} {{\n    pub type {}<'a> = super::Body{}<'a>;\n}}\n",
                            self.n_tuple, plain, module, name, self.n_tuple
                        ));
                        return format!("{}::{}<'a>", module, name);
                    }
                }
                plain
            }
            Ty::DeriveNamed(variant, m) => {
                let variant = &effective_variant(*variant, m);
                let parts: Vec<String> = m.iter().map(|x| self.ty(x, case)).collect();
                let name = format!("S{}_{}", case, self.n_struct);
                self.n_struct += 1;
                match variant {
                    1 => {
                        // extra lifetime; the first one is the fetch lifetime
                        let fields: Vec<String> =
                            parts.iter().enumerate().map(|(i, p)| format!("    pub f{}: {},", i, p)).collect();
                        self.defs.push_str(&format!(
                            "#[derive(SystemData)]\npub struct {}<'a, 'b> {{\n{}\n    pub extra: PhantomData<&'b u8>,\n}}\n",
                            name,
                            fields.join("\n")
                        ));
                        format!("{}<'a, 'a>", name)
                    }
                    2 | 3 if parts.len() == 1 => {
                        // ONE generic struct definition shared by all such descriptors of a
                        // program, instantiated with many different type arguments
                        self.n_struct -= 1;
                        if *variant == 2 {
                            format!("GOnlyB<'a, {}>", parts[0])
                        } else {
                            format!("GOnlyW<'a, {}>", parts[0])
                        }
                    }
                    5 if parts.len() == 2 => {
                        // one WIDE generic struct definition (ten fields, two of them type
                        // parameters), instantiated with different arguments in one program
                        self.n_struct -= 1;
                        format!("GWide<'a, {}, {}>", parts[0], parts[1])
                    }
                    4 if !parts.is_empty() => {
                        // the last member is reached through an associated type of a type parameter
                        let (last, init) = parts.split_last().unwrap();
                        let fields: Vec<String> =
                            init.iter().enumerate().map(|(i, p)| format!("    pub f{}: {},", i, p)).collect();
                        self.defs.push_str(&format!(
                            "pub struct B{name};\nimpl<'a> Bundle<'a> for B{name} {{\n    type Data = {last};\n}}\n#[derive(SystemData)]\npub struct {name}<'a, B: Bundle<'a>> {{\n{fields}\n    pub data: B::Data,\n    pub m: PhantomData<&'a ()>,\n}}\n",
                            name = name,
                            last = last,
                            fields = fields.join("\n")
                        ));
                        format!("{}<'a, B{}>", name, name)
                    }
                    2 | 3 if !parts.is_empty() => {
                        // the last member is supplied through a type parameter
                        let (last, init) = parts.split_last().unwrap();
                        let fields: Vec<String> =
                            init.iter().enumerate().map(|(i, p)| format!("    pub f{}: {},", i, p)).collect();
                        if *variant == 2 {
                            self.defs.push_str(&format!(
                                "#[derive(SystemData)]\npub struct {}<'a, T: SystemData<'a>> {{\n{}\n    pub inner: T,\n    pub m: PhantomData<&'a ()>,\n}}\n",
                                name,
                                fields.join("\n")
                            ));
                        } else {
                            self.defs.push_str(&format!(
                                "#[derive(SystemData)]\npub struct {}<'a, T>\nwhere\n    T: SystemData<'a>,\n{{\n{}\n    pub inner: T,\n    pub m: PhantomData<&'a ()>,\n}}\n",
                                name,
                                fields.join("\n")
                            ));
                        }
                        format!("{}<'a, {}>", name, last)
                    }
                    _ => {
                        let fields: Vec<String> =
                            parts.iter().enumerate().map(|(i, p)| format!("    pub f{}: {},", i, p)).collect();
                        self.defs.push_str(&format!(
                            "#[derive(SystemData)]\npub struct {}<'a> {{\n{}\n    pub m: PhantomData<&'a ()>,\n}}\n",
                            name,
                            fields.join("\n")
                        ));
                        format!("{}<'a>", name)
                    }
                }
            }
            Ty::DeriveTuple(variant, m) => {
                let variant = &effective_variant(*variant, m);
                let parts: Vec<String> = m.iter().map(|x| self.ty(x, case)).collect();
                let name = format!("S{}_{}", case, self.n_struct);
                self.n_struct += 1;
                if *variant == 1 {
                    let fields: Vec<String> = parts.iter().map(|p| format!("pub {}", p)).collect();
                    self.defs.push_str(&format!(
                        "#[derive(SystemData)]\npub struct {}<'a, 'b>({}{}pub PhantomData<&'b u8>);\n",
                        name,
                        fields.join(", "),
                        if fields.is_empty() { "" } else { ", " }
                    ));
                    format!("{}<'a, 'a>", name)
                } else {
                    let fields: Vec<String> = parts.iter().map(|p| format!("pub {}", p)).collect();
                    self.defs.push_str(&format!(
                        "#[derive(SystemData)]\npub struct {}<'a>({}{}pub PhantomData<&'a ()>);\n",
                        name,
                        fields.join(", "),
                        if fields.is_empty() { "" } else { ", " }
                    ));
                    format!("{}<'a>", name)
                }
            }
        }
    }
}

fn masks_for(t: &Ty, stream: &[u16]) -> Vec<u64> {
    let all: u64 = (1u64 << NR) - 1;
    let used: BTreeSet<usize> = reads(t).into_iter().chain(writes(t)).collect();
    let mut m = vec![all, 0];
    // every resource of the type present, nothing else
    let only: u64 = used.iter().fold(0, |acc, r| acc | (1 << r));
    m.push(only);
    // each optional member absent
    for o in optional(t) {
        m.push(all & !(1u64 << o));
    }
    // one non-optional member absent
    if let Some(r) = used.iter().find(|r| !optional(t).contains(r)) {
        m.push(all & !(1u64 << r));
    }
    // random subsets
    for k in 0..3 {
        let a = stream.get(k * 3).cloned().unwrap_or(0x5a5a) as u64;
        let b = stream.get(k * 3 + 1).cloned().unwrap_or(0x1234) as u64;
        let c = stream.get(k * 3 + 2).cloned().unwrap_or(0x0f0f) as u64;
        m.push((a | (b << 16) | (c << 32)) & all);
    }
    m.dedup();
    m
}

pub fn emit_program(descs: &[(Ty, Vec<u16>)]) -> String {
    let mut e = Emit {
        defs: String::new(),
        n_struct: 0,
        n_tuple: 0,
    };
    let mut body = String::new();
    let mut aliases = String::new();
    for (i, (t, stream)) in descs.iter().enumerate() {
        let ty = e.ty(t, i);
        aliases.push_str(&format!("pub type T{}<'a> = {};\n", i, ty));
        let desc = serde_json::to_string(t).unwrap().replace('\\', "\\\\").replace('"', "\\\"");
        let list = |v: Vec<usize>| format!("&{:?}", v);
        let masks: Vec<String> = masks_for(t, stream).iter().map(|m| format!("{:#x}", m)).collect();
        body.push_str(&format!(
            "    {{\n        static E: Expect = Expect {{ name: \"T{i}\", descriptor: \"{desc}\", reads: {r}, writes: {w}, provides: {p}, optional: {o}, handlers: {h}, masks: &[{m}] }};\n        accessor_agrees::<T{i}>(rep, &E);\n        check_type(rep, &E,\n            (<T{i} as SystemData>::reads(), <T{i} as SystemData>::writes()),\n            &|world: &World, probe: &mut dyn FnMut()| {{ let v: T{i} = SystemData::fetch(world); probe(); drop(v); }},\n            &|world: &mut World| {{ <T{i} as SystemData>::setup(world); }},\n            &|world: &mut World| {{ use shred::Accessor; let acc = <shred::StaticAccessor<T{i}> as Accessor>::try_new().expect(\"static accessor\"); <T{i} as shred::DynamicSystemData>::setup(&acc, world); }});\n    }}\n",
            i = i,
            desc = desc,
            r = list(reads(t)),
            w = list(writes(t)),
            p = list(provides(t)),
            o = list(optional(t)),
            h = list(handlers(t)),
            m = masks.join(", ")
        ));
    }
    // distinct resource types that share one `type_name` (declared in sibling blocks): declared
    // access must follow the type's identity, not its name
    let mut local = String::new();
    for (k, (t, _)) in descs.iter().enumerate().take(3) {
        // the same tuple shape in every block, so that only the identity of `Local` differs
        let _ = t;
        let other = 47usize;
        let payload = ["u64", "u32", "(u8, u8)"][k % 3];
        local.push_str(&format!(
            "    {{\n        #[derive(Default)]\n        struct Local({payload});\n        type TL<'a> = (Read<'a, Local>, Write<'a, R<{other}>>);\n        let want_r = vec![ResourceId::new::<Local>()];\n        let want_w = vec![ResourceId::new::<R<{other}>>()];\n        rep.types += 1;\n        if <TL as SystemData>::reads() != want_r || <TL as SystemData>::writes() != want_w {{\n            rep.failures.push((\"Local{k}\".to_string(), \"{{\\\"Tuple\\\":[{{\\\"Read\\\":0}}]}}\".to_string(), \"a tuple over the block-local resource type `Local` (same type_name as a sibling block's type) reports another type's resources\".to_string()));\n        }}\n        {{\n            use shred::Accessor;\n            let acc = <shred::StaticAccessor<TL> as Accessor>::try_new().expect(\"static accessor\");\n            if acc.reads() != want_r || acc.writes() != want_w {{\n                rep.failures.push((\"Local{k}\".to_string(), \"{{\\\"Tuple\\\":[{{\\\"Read\\\":0}}]}}\".to_string(), \"the accessor a system over this data hands to the dispatcher reports another type's resources for the block-local resource type `Local` (same type_name as a sibling block's type)\".to_string()));\n            }}\n        }}\n        let mut world = World::empty();\n        <TL as SystemData>::setup(&mut world);\n        if !world.has_value::<Local>() {{\n            rep.failures.push((\"Local{k}\".to_string(), \"{{\\\"Tuple\\\":[{{\\\"Read\\\":0}}]}}\".to_string(), \"setup of a tuple over a block-local resource type did not create it\".to_string()));\n        }}\n    }}\n",
            payload = payload,
            other = other,
            k = k
        ));
    }
    body.push_str(&local);
    format!(
        "// generated by vcheck (C06); do not edit\n#![allow(non_camel_case_types, clippy::all)]\nuse std::marker::PhantomData;\nuse shred::{{Read, ReadExpect, ResourceId, SystemData, World, Write, WriteExpect}};\nuse crate::rt::*;\n\nmacro_rules! Rd {{ ($l:lifetime, $t:ty) => {{ Read<$l, $t> }}; }}\nmacro_rules! Wr {{ ($l:lifetime, $t:ty) => {{ Write<$l, $t> }}; }}\npub type RdA<'a, const N: usize> = Read<'a, R<N>>;\npub type WrA<'a, const N: usize> = Write<'a, R<N>>;\n\npub trait Bundle<'a> {{\n    type Data: SystemData<'a>;\n}}\n\n#[derive(SystemData)]\npub struct GOnlyB<'a, T: SystemData<'a>> {{\n    pub inner: T,\n    pub m: PhantomData<&'a ()>,\n}}\n#[derive(SystemData)]\npub struct GWide<'a, T: SystemData<'a>, U: SystemData<'a>> {{\n    pub p0: (),\n    pub first: T,\n    pub p1: (),\n    pub p2: PhantomData<u8>,\n    pub p3: (),\n    pub second: U,\n    pub p4: (),\n    pub p5: (),\n    pub p6: PhantomData<u16>,\n    pub m: PhantomData<&'a ()>,\n}}\n#[derive(SystemData)]\npub struct GLane<'a, const N: usize> {{\n    pub lane: Write<'a, R<N>>,\n}}\n#[derive(SystemData)]\npub struct GOnlyW<'a, T>\nwhere\n    T: SystemData<'a>,\n{{\n    pub inner: T,\n    pub m: PhantomData<&'a ()>,\n}}\n\n{}\n{}\npub fn run(rep: &mut Report) {{\n{}}}\n",
        e.defs, aliases, body
    )
}

/// fallbacks if rustc rejects a generated program (inference limits around the derive macro):
/// level 1 turns every derive into its plain shape, level 2 turns derives into tuples
pub fn degrade(t: &Ty, level: u8) -> Ty {
    match t {
        Ty::Tuple(m) => Ty::Tuple(m.iter().map(|x| degrade(x, level)).collect()),
        Ty::DeriveNamed(_, m) | Ty::DeriveTuple(_, m) => {
            let mm: Vec<Ty> = m.iter().map(|x| degrade(x, level)).collect();
            if level >= 2 {
                Ty::Tuple(mm)
            } else if matches!(t, Ty::DeriveNamed(..)) {
                Ty::DeriveNamed(0, mm)
            } else {
                Ty::DeriveTuple(0, mm)
            }
        }
        other => other.clone(),
    }
}

pub struct RunOut {
    pub types: usize,
    pub nontrivial: usize,
    pub fetches: usize,
    /// (type index, message)
    pub failures: Vec<(usize, String)>,
}

pub fn run_program(descs: &[(Ty, Vec<u16>)]) -> Result<RunOut, String> {
    let dir = verif_dir().join("gen06");
    let code = emit_program(descs);
    std::fs::write(dir.join("src").join("generated.rs"), code).map_err(|e| e.to_string())?;
    let out = Command::new("cargo")
        .args(["run", "--offline", "--quiet"])
        .current_dir(&dir)
        .env("CARGO_NET_OFFLINE", "true")
        .output()
        .map_err(|e| format!("cannot run cargo: {}", e))?;
    let stdout = String::from_utf8_lossy(&out.stdout).to_string();
    let stderr = String::from_utf8_lossy(&out.stderr).to_string();
    let summary = stdout.lines().find(|l| l.starts_with("C06-SUMMARY"));
    let summary = match summary {
        Some(s) => s.to_string(),
        None => {
            let errs: Vec<&str> = stderr.lines().filter(|l| l.starts_with("error")).take(5).collect();
            return Err(format!(
                "the generated program did not build or run (status {:?}): {}",
                out.status.code(),
                errs.join(" | ")
            ));
        }
    };
    let num = |key: &str| -> usize {
        summary
            .split_whitespace()
            .find_map(|t| t.strip_prefix(key).and_then(|v| v.parse().ok()))
            .unwrap_or(0)
    };
    let mut failures = vec![];
    for l in stdout.lines().filter(|l| l.starts_with("C06-FAIL")) {
        let parts: Vec<&str> = l.splitn(4, '\t').collect();
        if parts.len() == 4 {
            // failures of the same-named-local-type blocks are reported as index usize::MAX
            let idx = parts[1].trim_start_matches('T').parse::<usize>().unwrap_or(usize::MAX);
            failures.push((idx, parts[3].to_string()));
        }
    }
    Ok(RunOut {
        types: num("types="),
        nontrivial: num("nontrivial="),
        fetches: num("fetches="),
        failures,
    })
}

fn draw_streams(seed: u64, n: usize) -> Vec<Vec<u16>> {
    // all randomness comes from proptest's seeded runner
    let cfg = Config {
        rng_seed: RngSeed::Fixed(seed.wrapping_mul(64).wrapping_add(6)),
        failure_persistence: None,
        ..Config::default()
    };
    let mut runner = TestRunner::new(cfg);
    let strat = pvec(any::<u16>(), 20..200usize);
    (0..n)
        .map(|_| strat.new_tree(&mut runner).map(|t| t.current()).unwrap_or_default())
        .collect()
}

#[derive(Serialize, Deserialize)]
pub struct C06Replay {
    pub descriptor: Ty,
    pub stream: Vec<u16>,
    /// further descriptors of the same program (the same-named local types come in blocks derived
    /// from the first three descriptors)
    #[serde(default)]
    pub extra: Vec<Ty>,
}

pub fn replay_c06(v: &serde_json::Value) -> Result<Result<(), String>, String> {
    let r: C06Replay = serde_json::from_value(v.clone()).map_err(|e| e.to_string())?;
    let mut descs = vec![(r.descriptor, r.stream.clone())];
    for e in r.extra {
        descs.push((e, r.stream.clone()));
    }
    let out = run_program(&descs)?;
    Ok(match out.failures.first() {
        None => Ok(()),
        Some((_, m)) => Err(m.clone()),
    })
}

pub fn run_c06(quick: bool, seed: u64) -> SubResult {
    let t0 = Instant::now();
    let mut stats = Stats::default();
    let chunks = if quick { 1 } else { 20 };
    let per_chunk = 150;
    let mut violation = None;
    let mut harness_error = None;
    let mut distinct: BTreeSet<String> = BTreeSet::new();
    'outer: for chunk in 0..chunks {
        let streams = draw_streams(seed * 1000 + chunk as u64, per_chunk + 26);
        let mut descs: Vec<(Ty, Vec<u16>)> = vec![];
        // every tuple arity 1..26 in every program
        for arity in 1..=26usize {
            descs.push((gen_desc(&streams[arity - 1], Some(arity)), streams[arity - 1].clone()));
        }
        // one const-generic derived struct under several constants (in one process)
        for j in 0..3usize {
            let s = &streams[26 + j];
            let n = (s.first().cloned().unwrap_or(7) as usize + 13 * j) % NR;
            descs.push((Ty::ConstLane(n), s.clone()));
        }
        // one wide generic derived struct under several pairs of type arguments (in one process)
        for j in 0..3usize {
            let s = &streams[30 + j];
            let mut src = Src::new(s);
            let mut a = Alloc {
                next_res: 0,
                next_handler: 100 + 10 * j,
                start: src.pick(NR),
                read_used: vec![],
            };
            let m0 = gen_leaf(&mut src, &mut a);
            let m1 = gen_leaf(&mut src, &mut a);
            descs.push((Ty::DeriveNamed(5, vec![m0, m1]), s.clone()));
        }
        // derived structs are not limited to 26 fields
        for j in 0..4usize {
            let s = &streams[26 + j];
            descs.push((gen_big_derive(s, j % 2 == 0), s.clone()));
        }
        for (k, s) in streams[26..].iter().enumerate() {
            let d = gen_desc(s, None);
            // every 12th descriptor is the shared generic derive struct around the generated type
            // (the same struct definition gets many different type arguments in one program)
            if k % 12 == 5 {
                descs.push((Ty::DeriveNamed(2 + (k / 12 % 2) as u8, vec![d]), s.clone()));
            } else {
                descs.push((d, s.clone()));
            }
        }
        for (t, _) in &descs {
            let nb = reads(t).len() + writes(t).len();
            if nb >= 2 {
                distinct.insert(serde_json::to_string(t).unwrap());
            }
            stats.class(&format!("depth_{}", depth(t)));
            match t {
                Ty::DeriveNamed(_, m) | Ty::DeriveTuple(_, m) if m.len() > 26 => {
                    stats.class("top_level_derive_with_more_than_26_fields")
                }
                Ty::DeriveNamed(..) | Ty::DeriveTuple(..) => stats.class("top_level_derive"),
                Ty::Tuple(m) => stats.class(if m.len() >= 13 { "tuple_arity>=13" } else { "tuple_arity<13" }),
                _ => stats.class("top_level_leaf"),
            }
            let mut subs = vec![];
            subterms(t, &mut subs);
            if subs.iter().any(|s| matches!(s, Ty::DeriveNamed(2, _) | Ty::DeriveNamed(3, _))) {
                stats.class("with_type_parameter_derive");
            }
            if subs.iter().any(|s| matches!(s, Ty::DeriveNamed(4, _))) {
                stats.class("with_associated_type_derive");
            }
            if subs.iter().any(|s| matches!(s, Ty::DeriveNamed(1, _) | Ty::DeriveTuple(1, _))) {
                stats.class("with_extra_lifetime_derive");
            }
            if subs.iter().any(|s| matches!(s, Ty::ReadH(..) | Ty::WriteH(..))) {
                stats.class("with_custom_handler");
            }
            if !optional(t).is_empty() {
                stats.class("with_option_member");
            }
        }
        let mut attempt = run_program(&descs);
        for level in 1..=2u8 {
            if let Err(e) = &attempt {
                if e.contains("did not build") {
                    stats.notes.insert(format!(
                        "rustc rejected a generated program; derive shapes degraded to level {}",
                        level
                    ));
                    descs = descs.iter().map(|(t, s)| (degrade(t, level), s.clone())).collect();
                    attempt = run_program(&descs);
                }
            }
        }
        match attempt {
            Err(e) => {
                harness_error = Some(e);
                break 'outer;
            }
            Ok(out) => {
                stats.evaluations += out.types as u64;
                stats.class_n("fetches_under_a_presence_subset", out.fetches as u64);
                if stats.samples.len() < 3 {
                    for (t, _) in descs.iter().skip(26).take(2) {
                        stats.samples.push(json!({"descriptor": t, "expected_reads": reads(t), "expected_writes": writes(t), "default_provided": provides(t)}));
                    }
                }
                if let Some((idx, msg)) = out.failures.first().cloned() {
                    if idx == usize::MAX {
                        let dirp = verif_dir().join("replays");
                        let _ = std::fs::create_dir_all(&dirp);
                        let path = dirp.join(format!("C06-c06-programs-seed{}.json", seed));
                        let v = json!({"property": "C06", "check": "c06-programs", "message": msg,
                            "case": C06Replay { descriptor: descs[0].0.clone(), stream: descs[0].1.clone(),
                                extra: vec![descs[1].0.clone(), descs[2].0.clone()] }});
                        let _ = std::fs::write(&path, serde_json::to_string_pretty(&v).unwrap());
                        violation = Some(Violation {
                            property: "C06".into(),
                            check: "c06-programs".into(),
                            msg,
                            replay: path.to_string_lossy().to_string(),
                        });
                        break 'outer;
                    }
                    // shrink: all sub-terms of the failing type as their own program
                    let (t, stream) = descs[idx].clone();
                    let mut subs = vec![];
                    subterms(&t, &mut subs);
                    subs.sort_by_key(size);
                    subs.dedup();
                    let sub_descs: Vec<(Ty, Vec<u16>)> = subs.iter().map(|s| (s.clone(), stream.clone())).collect();
                    let (min_t, min_msg) = match run_program(&sub_descs) {
                        Ok(o2) => match o2.failures.iter().min_by_key(|(i, _)| size(&sub_descs[*i].0)) {
                            Some((i, m)) => (sub_descs[*i].0.clone(), m.clone()),
                            None => (t.clone(), msg.clone()),
                        },
                        Err(_) => (t.clone(), msg.clone()),
                    };
                    let dirp = verif_dir().join("replays");
                    let _ = std::fs::create_dir_all(&dirp);
                    let path = dirp.join(format!("C06-c06-programs-seed{}.json", seed));
                    let v = json!({"property": "C06", "check": "c06-programs", "message": min_msg,
                        "case": C06Replay { descriptor: min_t, stream, extra: vec![] }});
                    let _ = std::fs::write(&path, serde_json::to_string_pretty(&v).unwrap());
                    violation = Some(Violation {
                        property: "C06".into(),
                        check: "c06-programs".into(),
                        msg: min_msg,
                        replay: path.to_string_lossy().to_string(),
                    });
                    break 'outer;
                }
            }
        }
    }
    // distinct non-trivial descriptors, counted
    for (i, d) in distinct.iter().enumerate() {
        let mut h = std::collections::hash_map::DefaultHasher::new();
        std::hash::Hash::hash(d, &mut h);
        stats.nontrivial.insert(std::hash::Hasher::finish(&h) ^ i as u64);
    }
    SubResult {
        name: "c06-programs".into(),
        rule: "generated PROGRAMS: per run 26 tuples (every arity 1..26, random member kind at every position) + 150 (thorough: 20 x 150) type descriptors from the grammar Read | Write | ReadExpect | WriteExpect | Read/Write with a custom logging SetupHandler | Option<Read> | Option<Write> | () | PhantomData | tuple | #[derive(SystemData)] named / tuple struct (plain, extra lifetime, type parameter with bound, type parameter with where-clause), nesting depth <= 3, a distinct resource type per borrowing position; the expected reads / writes / default-provided set / handler calls are computed by the harness's own composition rules and compiled in next to each type; oracle per type: reads() and writes() equal the expected multisets; under >= 6 presence subsets (all present, none, exactly its own, each Option member absent, one mandatory member absent, random) fetching borrows shared exactly reads & present, exclusively exactly writes & present, nothing else (all 48 cells probed), everything is free again after drop, a mandatory member on an absent resource panics and leaks nothing; setup on partially filled worlds creates exactly the default-provided resources, leaves sentinels untouched and calls each custom handler once; non-trivial = >= 2 borrowing leaves; distinct = descriptor JSON".into(),
        stats,
        violation,
        harness_error,
        wall_s: t0.elapsed().as_secs_f64(),
    }
}
