//! Executing a built plan under a schedule and the history-level oracles over the event log.

use std::collections::BTreeMap;
use std::panic::{catch_unwind, AssertUnwindSafe};
use std::sync::atomic::Ordering::SeqCst;
use std::time::Duration;

use shred::World;

use crate::build::{panic_msg, Built};
use crate::conductor::{CondReport, LayoutSet, Strategy, Tracker};
use crate::driver::Fail;
use crate::hsys::{EvKind, Event, HarnessFault, PHASE_RUN};
use crate::plan::{Ctl, Flat};
use crate::res::{self, mix};

#[derive(Clone, Copy, Debug, PartialEq, Eq, serde::Serialize, serde::Deserialize)]
pub enum Entry {
    /// `dispatch`: parallel stages, then thread-local systems
    Dispatch,
    /// `dispatch_par`: parallel stages only
    Par,
    /// `dispatch_seq` followed by `dispatch_thread_local`
    SeqTl,
    /// `dispatch_seq` only
    Seq,
    /// `dispatch_thread_local` only
    TlOnly,
    /// the dispatcher's `RunNow::run_now` (documented as `dispatch`)
    RunNowTrait,
}

impl Entry {
    pub fn runs_ordinary(self) -> bool {
        !matches!(self, Entry::TlOnly)
    }
    pub fn runs_tl(self) -> bool {
        matches!(self, Entry::Dispatch | Entry::SeqTl | Entry::TlOnly | Entry::RunNowTrait)
    }
    pub fn parallel(self) -> bool {
        matches!(self, Entry::Dispatch | Entry::Par | Entry::RunNowTrait)
    }
}

pub fn fresh_world() -> World {
    res::full_world(|r| mix(5, r.index() as u64))
}

/// maximal number of systems the plan can have inside `run` at once
pub fn concurrency(flat: &Flat, ls: &LayoutSet, bid: usize) -> usize {
    let l = &ls.by_bid[&bid];
    let mut best = if l.tl.is_empty() { 0 } else { 1 };
    for st in &l.stages {
        let mut sum = 0;
        for g in st {
            let mut m = 1;
            for &s in g {
                if let Some(ib) = flat.sys[s].inner_bid {
                    let times = flat.sys[s].ctl.as_ref().map(|c| c.times()).unwrap_or(0);
                    if times > 0 {
                        m = m.max(concurrency(flat, ls, ib));
                    }
                }
            }
            sum += m;
        }
        best = best.max(sum);
    }
    best.max(1)
}

pub struct RunOut {
    pub log: Vec<Event>,
    pub panic: Option<Box<dyn std::any::Any + Send>>,
    pub report: Option<CondReport>,
    pub caller_thread: u64,
}

/// One top-level dispatch call. `strategy` = None means free run (only jitter perturbs timing).
pub fn run_call(
    b: &mut Built,
    world: &World,
    entry: Entry,
    strategy: Option<Strategy>,
    deadline: Duration,
) -> RunOut {
    let ctx = b.ctx.clone();
    ctx.set_phase(PHASE_RUN);
    ctx.call.fetch_add(1, SeqCst);
    ctx.seq_inner.store(!entry.parallel(), SeqCst);
    let conducted = strategy.is_some() && entry.parallel();
    if let (true, Some(s)) = (conducted, strategy) {
        let tracker = Tracker::new(
            b.flat.clone(),
            b.layouts.clone(),
            matches!(entry, Entry::Dispatch | Entry::RunNowTrait),
        );
        ctx.cond.arm(tracker, s, deadline);
    }
    let d = &mut b.d;
    let r = catch_unwind(AssertUnwindSafe(|| match entry {
        Entry::Dispatch => d.dispatch(world),
        Entry::RunNowTrait => shred::RunNow::run_now(d, world),
        #[cfg(feature = "par")]
        Entry::Par => d.dispatch_par(world),
        #[cfg(not(feature = "par"))]
        Entry::Par => panic!("harness: dispatch_par does not exist without the parallel feature"),
        Entry::SeqTl => {
            d.dispatch_seq(world);
            d.dispatch_thread_local(world);
        }
        Entry::Seq => d.dispatch_seq(world),
        Entry::TlOnly => d.dispatch_thread_local(world),
    }));
    let report = if conducted {
        Some(ctx.cond.disarm())
    } else {
        None
    };
    ctx.set_phase(crate::hsys::PHASE_BUILD);
    RunOut {
        log: ctx.take_log(),
        panic: r.err(),
        report,
        caller_thread: crate::hsys::thread_no(),
    }
}

// ------------------------------------------------------------------------------------------------
// history analysis

#[derive(Clone, Debug)]
pub struct Win {
    pub sys: usize,
    pub begin: u64,
    pub end: u64,
    pub thread: u64,
    pub worker: i32,
    pub complete: bool,
}

/// per system: its run windows in order of occurrence
pub fn windows(flat: &Flat, log: &[Event]) -> Vec<Vec<Win>> {
    let mut wins: Vec<Vec<Win>> = vec![vec![]; flat.sys.len()];
    let mut open: BTreeMap<usize, Win> = BTreeMap::new();
    for e in log {
        match e.kind {
            EvKind::Begin => {
                if let Some(w) = open.remove(&e.sys) {
                    wins[e.sys].push(w);
                }
                open.insert(
                    e.sys,
                    Win {
                        sys: e.sys,
                        begin: e.t,
                        end: u64::MAX,
                        thread: e.thread,
                        worker: e.worker,
                        complete: false,
                    },
                );
            }
            EvKind::Fetched => {
                open.entry(e.sys).or_insert(Win {
                    sys: e.sys,
                    begin: e.t,
                    end: u64::MAX,
                    thread: e.thread,
                    worker: e.worker,
                    complete: false,
                });
            }
            EvKind::Released => {
                if let Some(mut w) = open.remove(&e.sys) {
                    w.end = e.t;
                    w.complete = true;
                    wins[e.sys].push(w);
                }
            }
            _ => {}
        }
    }
    for (_, w) in open {
        wins[w.sys].push(w);
    }
    for v in wins.iter_mut() {
        v.sort_by_key(|w| w.begin);
    }
    wins
}

/// the MultiDispatcher controller has no hook at the end of its run: close its window at the last
/// event of anything inside it (a subset of the real window, so still sound)
pub fn close_multi_windows(flat: &Flat, wins: &mut Vec<Vec<Win>>) {
    for s in 0..flat.sys.len() {
        if let Some(Ctl::Multi { .. }) = flat.sys[s].ctl {
            let desc = flat.descendants(s);
            let n = wins[s].len();
            for k in 0..n {
                if wins[s][k].complete {
                    continue;
                }
                let lo = wins[s][k].begin;
                let hi = if k + 1 < n {
                    wins[s][k + 1].begin
                } else {
                    u64::MAX
                };
                let mut end = lo;
                for &d in &desc {
                    for w in &wins[d] {
                        if w.begin > lo && w.begin < hi && w.end != u64::MAX {
                            end = end.max(w.end);
                        }
                    }
                }
                wins[s][k].end = end;
                wins[s][k].complete = true;
            }
        }
    }
}

fn related(flat: &Flat, a: usize, b: usize) -> bool {
    flat.ancestors(a).contains(&b) || flat.ancestors(b).contains(&a)
}

fn in_tl_of_batch(flat: &Flat, x: usize) -> bool {
    // x is, or lives below, a thread-local system of a builder that is inside a batch
    let mut cur = Some(x);
    while let Some(c) = cur {
        if flat.sys[c].is_tl && flat.sys[c].parent.is_some() {
            return true;
        }
        cur = flat.sys[c].parent;
    }
    false
}

/// C01-B / C07-B: windows of conflicting systems never overlap.
pub fn check_no_overlap(flat: &Flat, wins: &[Vec<Win>]) -> Result<(), Fail> {
    let n = flat.sys.len();
    for a in 0..n {
        for b in a + 1..n {
            if related(flat, a, b) || !flat.conflict(a, b) {
                continue;
            }
            for wa in &wins[a] {
                for wb in &wins[b] {
                    let overlap = wa.begin < wb.end && wb.begin < wa.end;
                    if overlap {
                        let key = if in_tl_of_batch(flat, a) || in_tl_of_batch(flat, b) {
                            "tl-in-batch-not-in-union"
                        } else {
                            "overlap"
                        };
                        return Err(Fail::keyed(
                            key,
                            format!(
                                "conflicting systems {} and {} were inside their fetch..release windows at the same time ([{}..{}] on thread {} and [{}..{}] on thread {})",
                                flat.sys[a].sid(), flat.sys[b].sid(), wa.begin, wa.end, wa.thread, wb.begin, wb.end, wb.thread
                            ),
                        ));
                    }
                }
            }
        }
    }
    Ok(())
}

/// occurrences of systems of one builder are aligned: the k-th run of A belongs to the same inner
/// dispatch as the k-th run of B
fn aligned<'w>(wins: &'w [Vec<Win>], a: usize, b: usize) -> impl Iterator<Item = (&'w Win, &'w Win)> {
    wins[a].iter().zip(wins[b].iter())
}

/// C02-B: Released(A) < Begin(B) for every declared edge A -> B, in every dispatch.
pub fn check_dep_order(flat: &Flat, wins: &[Vec<Win>]) -> Result<(), Fail> {
    for x in 0..flat.sys.len() {
        for &d in &flat.sys[x].deps {
            for (wd, wx) in aligned(wins, d, x) {
                if !(wd.end < wx.begin) {
                    return Err(Fail::new(format!(
                        "{} depends on {} but began (t={}) before the dependency had finished (window [{}..{}])",
                        flat.sys[x].sid(), flat.sys[d].sid(), wx.begin, wd.begin, wd.end
                    )));
                }
            }
        }
    }
    Ok(())
}

/// C03-B: everything before a barrier has finished before anything after it begins.
pub fn check_barrier_order(flat: &Flat, wins: &[Vec<Win>]) -> Result<(), Fail> {
    for bi in &flat.builders {
        for &x in &bi.members {
            for &y in &bi.members {
                if flat.sys[x].seg < flat.sys[y].seg {
                    for (wx, wy) in aligned(wins, x, y) {
                        if !(wx.end < wy.begin) {
                            return Err(Fail::new(format!(
                                "{} (registered before a barrier, window [{}..{}]) had not finished when {} (registered after it) began at t={}",
                                flat.sys[x].sid(), wx.begin, wx.end, flat.sys[y].sid(), wy.begin
                            )));
                        }
                    }
                }
            }
        }
    }
    Ok(())
}

/// C12: thread-local systems run on the calling thread, after all others, in registration order.
/// C07: every inner dispatch of a batch is complete - its thread-local systems included - before
/// the controller's next inner dispatch starts anything
pub fn check_inner_sequence(flat: &Flat, wins: &[Vec<Win>]) -> Result<(), Fail> {
    for bi in flat.builders.iter().filter(|b| b.owner.is_some()) {
        let all: Vec<usize> = bi.members.iter().chain(bi.tls.iter()).cloned().collect();
        for &a in &all {
            for &m in &bi.members {
                for k in 0..wins[a].len() {
                    if let (Some(wa), Some(wm_next)) = (wins[a].get(k), wins[m].get(k + 1)) {
                        if !(wa.end < wm_next.begin) {
                            return Err(Fail::new(format!(
                                "inside a batch: {}{} of inner dispatch {} (window [{}..{}]) had not finished when {} of the next inner dispatch began (t={})",
                                flat.sys[a].sid(),
                                if flat.sys[a].is_tl { " (thread-local)" } else { "" },
                                k, wa.begin, wa.end, flat.sys[m].sid(), wm_next.begin
                            )));
                        }
                    }
                }
            }
        }
    }
    Ok(())
}

pub fn check_thread_local(
    flat: &Flat,
    wins: &[Vec<Win>],
    caller: u64,
    calls_with_tl: usize,
) -> Result<(), Fail> {
    for bi in &flat.builders {
        for (i, &t) in bi.tls.iter().enumerate() {
            // after every ordinary system of the same dispatch
            for &m in &bi.members {
                for (wm, wt) in aligned(wins, m, t) {
                    if !(wm.end < wt.begin) {
                        return Err(Fail::new(format!(
                            "thread-local system {} began at t={} before {} had finished (window [{}..{}])",
                            flat.sys[t].sid(), wt.begin, flat.sys[m].sid(), wm.begin, wm.end
                        )));
                    }
                }
            }
            // a dispatch is complete (its thread-local systems included) before the next dispatch of
            // the same dispatcher starts anything
            for &m in &bi.members {
                for k in 0..wins[t].len() {
                    if let (Some(wt), Some(wm_next)) = (wins[t].get(k), wins[m].get(k + 1)) {
                        if !(wt.end < wm_next.begin) {
                            return Err(Fail::new(format!(
                                "thread-local system {} of dispatch {} (window [{}..{}]) had not finished when {} of the next dispatch began (t={})",
                                flat.sys[t].sid(), k, wt.begin, wt.end, flat.sys[m].sid(), wm_next.begin
                            )));
                        }
                    }
                }
            }
            // one at a time, in registration order
            if i + 1 < bi.tls.len() {
                let u = bi.tls[i + 1];
                for (wt, wu) in aligned(wins, t, u) {
                    if !(wt.end < wu.begin) {
                        return Err(Fail::new(format!(
                            "thread-local systems {} and {} did not run one after the other in registration order ([{}..{}] then [{}..{}])",
                            flat.sys[t].sid(), flat.sys[u].sid(), wt.begin, wt.end, wu.begin, wu.end
                        )));
                    }
                }
            }
            if bi.owner.is_none() && wins[t].len() != calls_with_tl {
                return Err(Fail::new(format!(
                    "thread-local system {} ran {} times in {} dispatches that run thread-local systems",
                    flat.sys[t].sid(),
                    wins[t].len(),
                    calls_with_tl
                )));
            }
        }
    }
    // second pass (so that the order oracles above also apply to known-finding cases): the thread
    for bi in &flat.builders {
        for &t in &bi.tls {
            for w in &wins[t] {
                if w.worker >= 0 || (bi.owner.is_none() && w.thread != caller) {
                    let key = if bi.owner.is_some() {
                        "tl-in-batch-on-worker"
                    } else {
                        "tl-off-caller"
                    };
                    return Err(Fail::keyed(
                        key,
                        format!(
                            "thread-local system {} ran on thread {} (pool worker index {}), the dispatching thread is {}",
                            flat.sys[t].sid(), w.thread, w.worker, caller
                        ),
                    ));
                }
            }
        }
    }
    Ok(())
}

/// Expected run counts after a sequence of top-level calls (C04).
pub fn expected_runs(flat: &Flat, ordinary_calls: u32, tl_calls: u32) -> Vec<u32> {
    let mut exp = vec![0u32; flat.sys.len()];
    fn fill(flat: &Flat, bid: usize, ord: u32, tl: u32, exp: &mut Vec<u32>) {
        let bi = &flat.builders[bid];
        for &m in &bi.members {
            exp[m] = ord;
            if let Some(ib) = flat.sys[m].inner_bid {
                let times = flat.sys[m].ctl.as_ref().map(|c| c.times()).unwrap_or(0) as u32;
                // an inner `dispatch` runs inner thread-local systems too
                fill(flat, ib, ord * times, ord * times, exp);
            }
        }
        for &t in &bi.tls {
            exp[t] = tl;
        }
    }
    fill(flat, 0, ordinary_calls, tl_calls, &mut exp);
    exp
}

pub fn check_counts(flat: &Flat, got: &[u32], exp: &[u32]) -> Result<(), Fail> {
    for s in 0..flat.sys.len() {
        if got[s] != exp[s] {
            return Err(Fail::new(format!(
                "system {}{} ran {} times, expected exactly {}",
                flat.sys[s].sid(),
                if flat.sys[s].is_tl { " (thread-local)" } else { "" },
                got[s],
                exp[s]
            )));
        }
    }
    Ok(())
}

pub fn describe_panic(p: &Box<dyn std::any::Any + Send>) -> String {
    if let Some(f) = p.downcast_ref::<HarnessFault>() {
        format!("HarnessFault({})", f.0)
    } else {
        panic_msg(p)
    }
}

/// every cell of the world is unborrowed
pub fn check_all_free(world: &World) -> Result<(), Fail> {
    for r in res::all_res() {
        match res::probe(world, r) {
            res::Cell::Free | res::Cell::Absent => {}
            c => {
                return Err(Fail::new(format!(
                    "resource {:?} is still borrowed ({:?}) after the dispatch returned",
                    r, c
                )))
            }
        }
    }
    Ok(())
}
