//! Canonical plan + sequential result of a registration sequence, computed the same way by the
//! main harness, by a second process of it, and by the build without shred's `parallel` feature.

use serde_json::{json, Value};

use crate::build::{build_plan, pool, BuildOpts};
use crate::exec::{describe_panic, fresh_world, run_call, Entry};
use crate::plan::Plan;
use crate::res;

pub fn summarise(plan: &Plan, repeats: usize) -> Value {
    let opts = BuildOpts {
        capture_debug: true,
        ..BuildOpts::default()
    };
    let mut b = match build_plan(plan, pool(0, 1), &opts) {
        Ok(b) => b,
        Err(e) => return json!({ "error": e }),
    };
    let layouts = serde_json::to_value(&*b.layouts).unwrap_or(Value::Null);
    let printed: std::collections::BTreeMap<String, String> = b
        .ctx
        .debug_texts
        .lock()
        .unwrap()
        .iter()
        .map(|(k, v)| (k.to_string(), v.clone().unwrap_or_else(|e| format!("PANIC: {}", e))))
        .collect();
    let mut out = json!({ "layouts": layouts, "printed": printed });
    for (key, entry) in [("seq", Entry::SeqTl), ("dispatch", Entry::Dispatch)] {
        // the parallel build only reports the sequential reference here
        if cfg!(feature = "par") && key == "dispatch" {
            continue;
        }
        let world = fresh_world();
        b.ctx.reset_states();
        b.ctx.reset_counters();
        let mut err = None;
        for _ in 0..repeats.max(1) {
            let o = run_call(&mut b, &world, entry, None, std::time::Duration::from_secs(5));
            if let Some(p) = &o.panic {
                err = Some(describe_panic(p));
                break;
            }
        }
        let digest: Vec<Option<u64>> = res::world_digest(&world).into_iter().map(|(_, v)| v).collect();
        out[key] = json!({ "world": digest, "states": b.ctx.states(), "runs": b.ctx.runs(), "panic": err });
    }
    out
}

/// file of plans (one JSON per line) -> file of summaries (one JSON per line)
pub fn run_file(input: &str, output: &str, repeats: usize) -> Result<usize, String> {
    let text = std::fs::read_to_string(input).map_err(|e| e.to_string())?;
    let mut out = String::new();
    let mut n = 0;
    for line in text.lines() {
        if line.trim().is_empty() {
            continue;
        }
        let plan: Plan = serde_json::from_str(line).map_err(|e| e.to_string())?;
        out.push_str(&summarise(&plan, repeats).to_string());
        out.push('\n');
        n += 1;
    }
    std::fs::write(output, out).map_err(|e| e.to_string())?;
    Ok(n)
}
