//! C13 (setup / dispose), C14 (panic containment, fault enumeration), C11 (real parallelism),
//! C12 (conversion to the sendable form).

use std::collections::{BTreeMap, BTreeSet};
use std::panic::{catch_unwind, AssertUnwindSafe};
use std::sync::atomic::{AtomicBool, AtomicU64, AtomicUsize, Ordering::SeqCst};
use std::sync::Arc;
use std::time::Duration;

use serde::{Deserialize, Serialize};
use serde_json::json;
use shred::World;

use crate::build::{build_builder, build_plan, panic_msg, pool, BuildOpts, Built};
use crate::conductor::Strategy;
use crate::driver::{Fail, Prop, Stats};
use crate::exec::*;
use crate::fam::HANDLER_CALLS;
use crate::hsys::*;
use crate::oracles;
use crate::plan::{
    compile, family_handler_calls, family_provides, gen_plan, simplify_plan, Flat, GenCfg, Kind,
    Plan, Src,
};
use crate::res::{self, Res};

// ------------------------------------------------------------------------------------------------
// C13

#[derive(Clone, Debug, Serialize, Deserialize)]
pub enum SetupStep {
    Setup,
    Insert(Res, u64),
    Remove(Res),
    /// the world value is moved to a different address (a `World` is an ordinary movable value)
    MoveWorld,
    /// a shared guard of an existing resource is forgotten (`mem::forget`): its borrow stays
    LeakShared(Res),
}

#[derive(Clone, Debug, Serialize, Deserialize)]
pub struct C13Case {
    pub plan: Plan,
    pub preexisting: Vec<(Res, u64)>,
    pub steps: Vec<SetupStep>,
    /// drive setup / dispose through the dispatcher's `RunNow` implementation
    #[serde(default)]
    pub via_trait: bool,
    /// convert the dispatcher to its sendable form (possible when it has no top-level thread-local
    /// system) and call setup / dispose from a thread other than the one that built it
    #[serde(default)]
    pub other_thread: bool,
}

enum Disp {
    Local(shred::Dispatcher<'static, 'static>),
    Sendable(shred::SendDispatcher<'static>),
}

pub struct C13 {
    pub cfg: GenCfg,
}

/// resources that some system / controller declaration at any depth provides by default
fn provided(flat: &Flat) -> BTreeSet<Res> {
    let mut out = BTreeSet::new();
    for s in &flat.sys {
        if s.is_batch {
            out.extend(family_provides(s.decl));
        } else if let Kind::Static(k) = s.kind {
            if !s.is_tl {
                out.extend(family_provides(k));
            }
        }
    }
    out
}

fn handler_calls_per_setup(flat: &Flat) -> u64 {
    let mut n = 0;
    for s in &flat.sys {
        if s.is_batch {
            n += family_handler_calls(s.decl);
        } else if let Kind::Static(k) = s.kind {
            if !s.is_tl {
                n += family_handler_calls(k);
            }
        }
    }
    n
}

fn world_contents(w: &World) -> BTreeMap<Res, u64> {
    res::all_res()
        .into_iter()
        .filter_map(|r| res::peek(w, r).map(|v| (r, v)))
        .collect()
}

impl Prop for C13 {
    type Case = C13Case;
    fn name(&self) -> &'static str {
        "c13-setup-dispose"
    }
    fn property(&self) -> &'static str {
        "C13"
    }
    fn rule(&self) -> &'static str {
        "plans with batches nested 0..3 deep, thread-local systems and many static SystemData shapes (default-providing Read/Write, Option, ReadExpect/WriteExpect, a custom counting SetupHandler, derive struct) x a world in which a generated subset of the 32 resources pre-exists with generated values x a history of 1..3 setup calls interleaved with inserts / removes and moves of the world value to another address, then dispose; one case in eight forgets a shared guard of an existing resource first (setup may then refuse by a panic, but may not change what existed); one case in four with no top-level thread-local system converts the dispatcher to its sendable form and calls setup / dispose from another thread; oracle: every setup call increments the setup counter of every system at any depth by exactly 1 and calls each custom handler once per member, afterwards every default-provided resource exists, every value that existed before the call is bit-identical, nothing else was created; dispose increments every system's dispose counter exactly once; non-trivial = >= 1 batch with >= 1 inner system and >= 1 pre-existing resource; distinct = hash of the case"
    }
    fn gen(&self, src: &mut Src) -> C13Case {
        let plan = gen_plan(src, &self.cfg);
        let n_pre = src.pick(12);
        let mut preexisting = vec![];
        for _ in 0..n_pre {
            // bias toward dynamic id 0, where the static shapes live
            let t = src.pick(res::NT);
            let d = if src.chance(12, 16) { 0 } else { src.pick(res::ND_CLASSIC) };
            let r = Res::new(t, d);
            if !preexisting.iter().any(|(x, _)| *x == r) {
                preexisting.push((r, 1000 + src.raw() as u64));
            }
        }
        let mut steps = vec![SetupStep::Setup];
        let extra = src.pick(5);
        for _ in 0..extra {
            match src.pick(4) {
                0 => steps.push(SetupStep::Setup),
                1 => steps.push(SetupStep::Insert(
                    Res::new(src.pick(res::NT), 0),
                    5000 + src.raw() as u64,
                )),
                2 => steps.push(SetupStep::Remove(Res::new(src.pick(res::NT), 0))),
                _ => steps.push(SetupStep::MoveWorld),
            }
        }
        if src.chance(2, 16) {
            // before one of the setups (position generated)
            let at = src.pick(steps.len());
            steps.insert(at, SetupStep::LeakShared(Res::new(src.pick(res::NT), 0)));
        }
        if src.chance(5, 16) {
            steps.push(SetupStep::MoveWorld);
        }
        let via_trait = src.chance(6, 16);
        let other_thread = src.chance(4, 16);
        C13Case {
            plan,
            preexisting,
            steps,
            via_trait,
            other_thread,
        }
    }
    fn check(&self, case: &C13Case, lane: usize, st: &mut Stats) -> Result<(), Fail> {
        let opts = BuildOpts {
            provide: false,
            ..BuildOpts::default()
        };
        let mut b = build_plan(&case.plan, pool(lane, 1), &opts)
            .map_err(|e| Fail::keyed("build-or-identify", e))?;
        crate::p_layout::classify(&b, st);
        let flat = b.flat.clone();
        let prov = provided(&flat);
        let per_setup_handler = handler_calls_per_setup(&flat);
        let mut world = Box::new(World::empty());
        for (r, v) in &case.preexisting {
            res::insert(&mut world, *r, *v);
        }
        b.ctx.reset_counters();
        let Built { d, ctx, .. } = b;
        let mut disp = if case.other_thread && flat.builders[0].tls.is_empty() {
            match d.try_into_sendable() {
                Ok(sd) => Disp::Sendable(sd),
                Err(d) => Disp::Local(d),
            }
        } else {
            Disp::Local(d)
        };
        if matches!(disp, Disp::Sendable(_)) {
            st.class("sendable_form_set_up_and_disposed_from_another_thread");
        }
        let mut n_setup = 0u32;
        let mut moved_after_setup = false;
        let mut leaked: BTreeSet<Res> = BTreeSet::new();
        for step in &case.steps {
            match step {
                SetupStep::LeakShared(r) => {
                    if let Some(g) = res::fetch_r(&world, *r) {
                        std::mem::forget(g);
                        leaked.insert(*r);
                    }
                }
                SetupStep::MoveWorld => {
                    // the new allocation exists before the old one is freed: the address really changes
                    let mut nb = Box::new(World::empty());
                    std::mem::swap(&mut *nb, &mut *world);
                    world = nb;
                    moved_after_setup = n_setup > 0;
                }
                SetupStep::Insert(r, v) => {
                    res::insert(&mut world, *r, *v);
                    leaked.remove(r);
                }
                SetupStep::Remove(r) => {
                    // (taking a value out of a cell whose guard was forgotten trips an assertion of
                    // the cell type itself)
                    if !leaked.contains(r) {
                        res::remove(&mut world, *r);
                    }
                }
                SetupStep::Setup => {
                    let before = world_contents(&world);
                    ctx.set_phase(PHASE_SETUP);
                    let (r, handler_calls) = match &mut disp {
                        Disp::Local(d) => {
                            let h0 = HANDLER_CALLS.with(|c| c.get());
                            let r = catch_unwind(AssertUnwindSafe(|| {
                                if case.via_trait {
                                    shred::RunNow::setup(d, &mut world)
                                } else {
                                    d.setup(&mut world)
                                }
                            }));
                            (r, HANDLER_CALLS.with(|c| c.get()) - h0)
                        }
                        Disp::Sendable(sd) => {
                            let w: &mut World = &mut world;
                            std::thread::scope(|sc| {
                                sc.spawn(move || {
                                    // the handler counter is per thread
                                    let h0 = HANDLER_CALLS.with(|c| c.get());
                                    let r = catch_unwind(AssertUnwindSafe(|| sd.setup(w)));
                                    (r, HANDLER_CALLS.with(|c| c.get()) - h0)
                                })
                                .join()
                                .expect("harness: setup thread")
                            })
                        }
                    };
                    ctx.set_phase(PHASE_BUILD);
                    if let Err(p) = r {
                        if !leaked.is_empty() {
                            // a setup that needs a resource whose guard was forgotten may refuse by a
                            // panic; what it may not do is change anything that existed
                            let after = world_contents(&world);
                            for (r, v) in &before {
                                if after.get(r) != Some(v) {
                                    return Err(Fail::new(format!(
                                        "a setup that panicked (a guard of {:?} had been forgotten) changed the pre-existing resource {:?}: {} -> {:?}",
                                        leaked, r, v, after.get(r)
                                    )));
                                }
                            }
                            st.class("setup_refused_because_of_a_forgotten_guard");
                            return Ok(());
                        }
                        return Err(Fail::new(format!("setup panicked: {}", panic_msg(&p))));
                    }
                    n_setup += 1;
                    moved_after_setup = false;
                    let (h0, h1) = (0, handler_calls);
                    for s in &flat.sys {
                        if s.is_batch {
                            continue; // controllers have no setup hook of their own
                        }
                        let got = ctx.setup[s.idx].load(SeqCst);
                        if got != n_setup {
                            return Err(Fail::new(format!(
                                "after {} setup call(s) the setup of system {}{} was called {} times",
                                n_setup,
                                s.sid(),
                                if s.is_tl { " (thread-local)" } else { "" },
                                got
                            )));
                        }
                    }
                    if h1 - h0 != per_setup_handler {
                        return Err(Fail::new(format!(
                            "custom setup handlers were called {} times by one setup call, expected {} (once per member using it)",
                            h1 - h0,
                            per_setup_handler
                        )));
                    }
                    let after = world_contents(&world);
                    for (r, v) in &before {
                        match after.get(r) {
                            Some(v2) if v2 == v => {}
                            other => {
                                return Err(Fail::new(format!(
                                    "setup changed the pre-existing resource {:?}: {} -> {:?}",
                                    r, v, other
                                )))
                            }
                        }
                    }
                    for r in &prov {
                        if !after.contains_key(r) {
                            return Err(Fail::new(format!(
                                "resource {:?} is reached through a default-providing accessor but does not exist after setup",
                                r
                            )));
                        }
                    }
                    for (r, v) in &after {
                        if !before.contains_key(r) {
                            if !prov.contains(r) {
                                return Err(Fail::new(format!(
                                    "setup created resource {:?} although only optional / expecting accessors (or none) refer to it",
                                    r
                                )));
                            }
                            if *v != 0 {
                                return Err(Fail::new(format!(
                                    "resource {:?} created by setup holds {} instead of the default value",
                                    r, v
                                )));
                            }
                        }
                    }
                }
            }
        }
        // dispose hands every system to its dispose hook exactly once
        let r = match disp {
            Disp::Local(d) => catch_unwind(AssertUnwindSafe(|| {
                if case.via_trait {
                    shred::RunNow::dispose(Box::new(d), &mut world)
                } else {
                    d.dispose(&mut world)
                }
            })),
            Disp::Sendable(sd) => {
                let w: &mut World = &mut world;
                std::thread::scope(|sc| {
                    sc.spawn(move || catch_unwind(AssertUnwindSafe(|| sd.dispose(w))))
                        .join()
                        .expect("harness: dispose thread")
                })
            }
        };
        if let Err(p) = r {
            return Err(Fail::new(format!("dispose panicked: {}", panic_msg(&p))));
        }
        if case.via_trait {
            st.class("through_RunNow_trait");
        }
        if moved_after_setup {
            st.class("world_moved_between_setup_and_dispose");
        }
        for s in &flat.sys {
            if s.is_batch {
                continue;
            }
            let got = ctx.dispose[s.idx].load(SeqCst);
            if got != 1 {
                let key = if s.parent.is_some() {
                    "dispose-not-forwarded-into-batch"
                } else {
                    "dispose-count"
                };
                return Err(Fail::keyed(
                    key,
                    format!(
                        "dispose reached system {}{} {} times, expected exactly once",
                        s.sid(),
                        if s.is_tl { " (thread-local)" } else { "" },
                        got
                    ),
                ));
            }
        }
        let has_batch_with_inner = flat
            .sys
            .iter()
            .any(|s| s.is_batch && !flat.descendants(s.idx).is_empty());
        if has_batch_with_inner && !case.preexisting.is_empty() {
            st.nontrivial(case, || json!({"provided": prov.iter().collect::<Vec<_>>() }));
        }
        Ok(())
    }
    fn simplify(&self, case: &C13Case) -> Vec<C13Case> {
        let mut out: Vec<C13Case> = simplify_plan(&case.plan)
            .into_iter()
            .map(|p| C13Case {
                plan: p,
                ..case.clone()
            })
            .collect();
        for i in 0..case.preexisting.len() {
            let mut c = case.clone();
            c.preexisting.remove(i);
            out.push(c);
        }
        for i in 1..case.steps.len() {
            let mut c = case.clone();
            c.steps.remove(i);
            out.push(c);
        }
        out
    }
}

// ------------------------------------------------------------------------------------------------
// C14

#[derive(Clone, Debug, Serialize, Deserialize)]
pub struct C14Case {
    pub plan: Plan,
    pub threads: u8,
}

pub struct C14 {
    pub cfg: GenCfg,
    pub pairs: bool,
    pub name: &'static str,
}

thread_local! {
    /// set when a conducted dispatch of the current plan needed fallback grants or was abandoned:
    /// the implementation does not offer the concurrency the layout promises, so the remaining
    /// fault points of this plan run without schedule control (free run) instead of crawling
    static C14_DEGRADED: std::cell::Cell<bool> = const { std::cell::Cell::new(false) };
}

fn must_not_run(flat: &Flat, s: usize) -> BTreeSet<usize> {
    // transitive dependents of s and of every batch that encloses s, plus everything inside them
    let mut out = BTreeSet::new();
    let mut chain = vec![s];
    chain.extend(flat.ancestors(s));
    for e in chain {
        let bid = flat.sys[e].bid;
        for &y in &flat.builders[bid].members {
            if flat.deps_star(y).contains(&e) {
                out.insert(y);
                out.extend(flat.descendants(y));
            }
        }
    }
    out
}

impl C14 {
    #[allow(clippy::too_many_arguments)]
    fn one_fault(
        &self,
        b: &mut Built,
        armed: &[usize],
        point: u8,
        entry: Entry,
        strategy: Option<Strategy>,
        label: &str,
    ) -> Result<(), Fail> {
        self.one_fault_at(b, armed, point, 0, entry, strategy, label)
    }

    /// `run_no` > 0: the armed system panics in its `run_no`-th run of the dispatch (a later inner
    /// dispatch of an enclosing batch), 0: in its first
    #[allow(clippy::too_many_arguments)]
    fn one_fault_at(
        &self,
        b: &mut Built,
        armed: &[usize],
        point: u8,
        run_no: u32,
        entry: Entry,
        strategy: Option<Strategy>,
        label: &str,
    ) -> Result<(), Fail> {
        let flat = b.flat.clone();
        let world = fresh_world();
        b.ctx.reset_counters();
        b.ctx.reset_states();
        for &a in armed {
            b.ctx.fault[a].store(point, SeqCst);
            b.ctx.fault_run[a].store(run_no, SeqCst);
        }
        let strategy = if C14_DEGRADED.with(|d| d.get()) {
            None
        } else {
            strategy
        };
        let out = run_call(b, &world, entry, strategy, Duration::from_millis(3000));
        if let Some(r) = &out.report {
            if r.fallback_grants > 2 || r.abandoned {
                C14_DEGRADED.with(|d| d.set(true));
            }
        }
        for &a in armed {
            b.ctx.fault[a].store(FAULT_NONE, SeqCst);
            b.ctx.fault_run[a].store(0, SeqCst);
        }
        let where_ = format!(
            "[armed {:?} at point {}{} entry {:?} schedule {}]",
            armed.iter().map(|a| flat.sys[*a].sid()).collect::<Vec<_>>(),
            point,
            if run_no > 0 { format!(" of its run number {}", run_no) } else { String::new() },
            entry,
            label
        );
        // every armed system is reachable (each runs at least once per dispatch), except systems
        // inside batches that dispatch 0 times and systems that depend on another armed one
        let reachable: Vec<usize> = armed
            .iter()
            .cloned()
            .filter(|a| {
                flat.ancestors(*a).iter().all(|p| {
                    flat.sys[*p].ctl.as_ref().map(|c| c.times()).unwrap_or(1) > 0
                }) && (entry.runs_tl() || !tl_or_below_tl(&flat, *a))
                    && (entry.runs_ordinary() || flat.sys[*a].is_tl)
            })
            .collect();
        match &out.panic {
            None => {
                if !reachable.is_empty() {
                    return Err(Fail::new(format!(
                        "a system panicked during dispatch but dispatch returned normally {}",
                        where_
                    )));
                }
                return Ok(());
            }
            Some(p) => match p.downcast_ref::<HarnessFault>() {
                Some(f) if armed.contains(&f.0) => {}
                Some(f) => {
                    return Err(Fail::new(format!(
                        "the panic that reached the caller carries the payload of system {}, which was not armed {}",
                        f.0, where_
                    )))
                }
                None => {
                    return Err(Fail::new(format!(
                        "the panic that reached the caller does not carry the payload of a panicking system: {} {}",
                        panic_msg(p),
                        where_
                    )))
                }
            },
        }
        let runs = b.ctx.runs();
        let exp = expected_runs(&flat, 1, 1);
        for s in 0..flat.sys.len() {
            if runs[s] > exp[s] {
                return Err(Fail::new(format!(
                    "system {} ran {} times in the dispatch that panicked (at most {} allowed) {}",
                    flat.sys[s].sid(),
                    runs[s],
                    exp[s],
                    where_
                )));
            }
        }
        if armed.len() == 1 && run_no <= 1 {
            for y in must_not_run(&flat, armed[0]) {
                if runs[y] > 0 {
                    return Err(Fail::new(format!(
                        "system {} depends on the panicking system (chain) but ran in that dispatch {}",
                        flat.sys[y].sid(),
                        where_
                    )));
                }
            }
        }
        check_all_free(&world).map_err(|f| Fail::new(format!("{} {}", f.msg, where_)))?;
        // the next dispatches: as if nothing had happened (two of them: state that is only repaired by
        // the first one must not stay broken either)
        for round in 0..2 {
            b.ctx.reset_counters();
            let out2 = run_call(b, &world, entry, None, Duration::from_millis(3000));
            if let Some(p) = &out2.panic {
                return Err(Fail::new(format!(
                    "dispatch {} after a caught panic panicked: {} {}",
                    round + 1,
                    describe_panic(p),
                    where_
                )));
            }
            let exp2 = expected_runs(
                &flat,
                if entry.runs_ordinary() { 1 } else { 0 },
                if entry.runs_tl() { 1 } else { 0 },
            );
            check_counts(&flat, &b.ctx.runs(), &exp2).map_err(|f| {
                Fail::new(format!(
                    "dispatch {} after a caught panic: {} {}",
                    round + 1,
                    f.msg,
                    where_
                ))
            })?;
        }
        check_all_free(&world)?;
        Ok(())
    }
}

impl C14 {
    /// the panic of `s` (in its first run) is caught by the custom controller `p` of the batch that
    /// directly holds `s`, around the inner dispatch; the controller then carries on
    fn one_caught_fault(&self, b: &mut Built, s: usize, p: usize, point: u8, entry: Entry) -> Result<(), Fail> {
        let flat = b.flat.clone();
        let world = fresh_world();
        b.ctx.reset_counters();
        b.ctx.reset_states();
        b.ctx.ctl_caught.store(0, SeqCst);
        b.ctx.ctl_catch.store(true, SeqCst);
        b.ctx.fault[s].store(point, SeqCst);
        b.ctx.fault_run[s].store(1, SeqCst);
        let out = run_call(b, &world, entry, None, Duration::from_millis(3000));
        b.ctx.fault[s].store(FAULT_NONE, SeqCst);
        b.ctx.fault_run[s].store(0, SeqCst);
        let where_ = format!(
            "[armed {:?} at point {} of its first run, entry {:?}; the controller {} of its batch catches the panic of the inner dispatch and carries on]",
            flat.sys[s].sid(),
            point,
            entry,
            flat.sys[p].sid()
        );
        let finish = |b: &mut Built, r: Result<(), Fail>| {
            b.ctx.ctl_catch.store(false, SeqCst);
            r
        };
        if let Some(pl) = &out.panic {
            return finish(b, Err(Fail::new(format!(
                "a panic reached the caller of dispatch although the batch controller caught it: {} {}",
                describe_panic(pl),
                where_
            ))));
        }
        let caught = b.ctx.ctl_caught.load(SeqCst);
        if caught != 1 {
            return finish(b, Err(Fail::new(format!(
                "the controller caught {} panics of its inner dispatches, expected exactly 1 {}",
                caught, where_
            ))));
        }
        let runs = b.ctx.runs();
        let exp = expected_runs(&flat, 1, 1);
        let inside: BTreeSet<usize> = flat.descendants(p).into_iter().collect();
        let inner_dispatches = exp[p] * flat.sys[p].ctl.as_ref().map(|c| c.times()).unwrap_or(0) as u32;
        for y in 0..flat.sys.len() {
            let (lo, hi) = if inside.contains(&y) && inner_dispatches > 0 {
                // one inner dispatch (the one that panicked) may be incomplete
                (exp[y] - exp[y] / inner_dispatches, exp[y])
            } else {
                (exp[y], exp[y])
            };
            if runs[y] < lo || runs[y] > hi {
                return finish(b, Err(Fail::new(format!(
                    "system {} ran {} times in a dispatch whose only panic was caught inside a batch, expected {}..={} {}",
                    flat.sys[y].sid(),
                    runs[y],
                    lo,
                    hi,
                    where_
                ))));
            }
        }
        if let Err(f) = check_all_free(&world) {
            return finish(b, Err(Fail::new(format!("{} {}", f.msg, where_))));
        }
        for round in 0..2 {
            b.ctx.reset_counters();
            b.ctx.ctl_caught.store(0, SeqCst);
            let out2 = run_call(b, &world, entry, None, Duration::from_millis(3000));
            if let Some(pl) = &out2.panic {
                return finish(b, Err(Fail::new(format!(
                    "dispatch {} after a panic caught inside a batch panicked: {} {}",
                    round + 1,
                    describe_panic(pl),
                    where_
                ))));
            }
            if let Err(f) = check_counts(&flat, &b.ctx.runs(), &exp) {
                return finish(b, Err(Fail::new(format!(
                    "dispatch {} after a panic caught inside a batch: {} {}",
                    round + 1,
                    f.msg,
                    where_
                ))));
            }
        }
        finish(b, check_all_free(&world))
    }
}

fn tl_or_below_tl(flat: &Flat, s: usize) -> bool {
    // only top-level thread-local systems are skipped by dispatch_par / dispatch_seq
    flat.sys[s].is_tl && flat.sys[s].parent.is_none()
}

impl Prop for C14 {
    type Case = C14Case;
    fn name(&self) -> &'static str {
        self.name
    }
    fn property(&self) -> &'static str {
        "C14"
    }
    fn rule(&self) -> &'static str {
        "small generated plans (<= 10 ops, batches, thread-locals); ENUMERATED per plan: every system (each position of each group and stage, thread-local, controller, inside batches) as the panicking one x fault point {before its fetch, inside run, after its release} x {dispatch (parallel), dispatch_seq + thread-local, RunNow::run_now} x (for systems inside batches that dispatch k >= 2 times, incl. MultiDispatcher batches: also the fault in the last and the second of its runs; for systems directly inside a batch with a custom controller: also with that controller catching the panic around its inner dispatch and carrying on - then dispatch must return normally, everything outside the batch runs exactly once, inside it at most one inner dispatch is incomplete) x sibling phase forced by the conductor {panicking system first = siblings before their fetch, maximal overlap = siblings inside run, panicking system last = siblings released}; pairs variant: two systems of one stage armed at once; oracle: catch_unwind(dispatch) is Err with the HarnessFault payload of an armed system, no counter above 1 x enclosing dispatch counts, no transitive dependent ran, afterwards every cell probes free and the next unarmed dispatch runs everything exactly once; evaluations = fault points; non-trivial = plan with >= 2 groups in a stage or a dependency edge; distinct = plan hash"
    }
    fn gen(&self, src: &mut Src) -> C14Case {
        let threads = if self.cfg.max_ops > 12 {
            // wide stages: pools smaller and larger than the number of groups
            [2u8, 3, 4, 16][src.pick(4)]
        } else {
            [2u8, 4, 8][src.pick(3)]
        };
        C14Case {
            plan: gen_plan(src, &self.cfg),
            threads,
        }
    }
    fn check(&self, case: &C14Case, lane: usize, st: &mut Stats) -> Result<(), Fail> {
        let threads = case.threads.clamp(1, 16) as usize;
        let mut b = build_plan(&case.plan, pool(lane, threads), &BuildOpts::default())
            .map_err(|e| Fail::keyed("build-or-identify", e))?;
        oracles::check_complete(&b.flat, &b.layouts)?;
        let flat = b.flat.clone();
        let conc = concurrency(&flat, &b.layouts, 0);
        let controllable = conc <= threads && !crate::p_sched::has_multi(&b);
        let n = flat.sys.len();
        let mut points = 0u64;
        let mut later_points = 0u64;
        let mut caught_points = 0u64;
        C14_DEGRADED.with(|d| d.set(false));
        if self.pairs {
            // two systems of one stage, different groups, at once
            let l0 = b.layouts.by_bid[&0].clone();
            for stg in &l0.stages {
                for g1 in 0..stg.len() {
                    for g2 in g1 + 1..stg.len() {
                        let (a, c) = (stg[g1][0], stg[g2][0]);
                        for point in [FAULT_BEFORE_FETCH, FAULT_IN_RUN, FAULT_AFTER_RELEASE] {
                            let strat = if controllable {
                                Some(Strategy::MaxOverlap(vec![]))
                            } else {
                                None
                            };
                            self.one_fault(&mut b, &[a, c], point, Entry::Dispatch, strat, "max-overlap")?;
                            points += 1;
                        }
                    }
                }
            }
        } else {
            for s in 0..n {
                for point in [FAULT_BEFORE_FETCH, FAULT_IN_RUN, FAULT_AFTER_RELEASE] {
                    // sequential
                    self.one_fault(&mut b, &[s], point, Entry::SeqTl, None, "sequential")?;
                    points += 1;
                    // parallel, three sibling phases
                    let mut mine = vec![s];
                    mine.extend(flat.ancestors(s));
                    mine.extend(flat.descendants(s));
                    let scheds: Vec<(&str, Option<Strategy>)> = if controllable {
                        vec![
                            (
                                "faulting-first",
                                Some(Strategy::Prefer {
                                    sys: mine.clone(),
                                    first: true,
                                    begins_first: false,
                                }),
                            ),
                            ("max-overlap", Some(Strategy::MaxOverlap(vec![]))),
                            (
                                "faulting-last",
                                Some(Strategy::Prefer {
                                    sys: mine.clone(),
                                    first: false,
                                    begins_first: false,
                                }),
                            ),
                        ]
                    } else {
                        vec![("free-run", None)]
                    };
                    for (label, strat) in scheds {
                        self.one_fault(&mut b, &[s], point, Entry::Dispatch, strat, label)?;
                        points += 1;
                    }
                    // the dispatcher driven as a RunNow object
                    self.one_fault(&mut b, &[s], point, Entry::RunNowTrait, None, "free-run through RunNow::run_now")?;
                    points += 1;
                    // inside a batch that dispatches several times: also in a later inner dispatch
                    let per_dispatch = expected_runs(&flat, 1, 1)[s];
                    if per_dispatch >= 2 {
                        let mut ks = vec![per_dispatch];
                        if per_dispatch >= 3 {
                            ks.push(2);
                        }
                        for k in ks {
                            for entry in [Entry::SeqTl, Entry::Dispatch] {
                                self.one_fault_at(&mut b, &[s], point, k, entry, None, "free-run, later inner dispatch")?;
                                points += 1;
                                later_points += 1;
                            }
                        }
                    }
                    // the panic is caught inside the batch, by the controller around its inner dispatch
                    if let Some(p) = flat.sys[s].parent {
                        let custom = matches!(flat.sys[p].ctl, Some(crate::plan::Ctl::Custom { n }) if n >= 1);
                        if custom && per_dispatch >= 1 {
                            for entry in [Entry::SeqTl, Entry::Dispatch] {
                                self.one_caught_fault(&mut b, s, p, point, entry)?;
                                points += 1;
                                caught_points += 1;
                            }
                        }
                    }
                }
            }
        }
        st.class_n("fault_points_in_a_later_inner_dispatch", later_points);
        st.class_n("fault_points_caught_by_the_batch_controller", caught_points);
        st.eval(points.saturating_sub(1));
        st.class_n("fault_points", points);
        let dep_in_group = b.layouts.by_bid.values().any(|l| {
            l.stages.iter().flatten().any(|g| {
                g.iter()
                    .enumerate()
                    .any(|(i, x)| g[..i].iter().any(|d| flat.deps_star(*x).contains(d)))
            })
        });
        if dep_in_group {
            st.class("plans_with_dependent_behind_its_dependency_in_one_group");
        }
        let widest = b.layouts.by_bid.values().flat_map(|l| l.stages.iter().map(|s| s.len())).max().unwrap_or(0);
        if widest > threads {
            st.class("plans_with_more_groups_in_a_stage_than_pool_threads");
        }
        if widest >= 10 && dep_in_group {
            st.class("plans_with_10_or_more_groups_in_a_stage_and_a_dependent_in_group");
        }
        if controllable {
            st.class("plans_schedule_controlled");
        }
        if C14_DEGRADED.with(|d| d.get()) {
            st.class("plans_degraded_to_free_run");
        }
        let wide = b.layouts.by_bid.values().any(|l| l.stages.iter().any(|s| s.len() >= 2));
        let edges = flat.sys.iter().any(|s| !s.deps.is_empty());
        if points > 0 && (wide || edges) {
            st.exhaustive_plans += 1;
            st.nontrivial(case, || json!({"layout": oracles::describe(&flat, &b.layouts), "fault_points": points}));
        }
        Ok(())
    }
    fn simplify(&self, case: &C14Case) -> Vec<C14Case> {
        simplify_plan(&case.plan)
            .into_iter()
            .map(|p| C14Case {
                plan: p,
                threads: case.threads,
            })
            .collect()
    }
}

// ------------------------------------------------------------------------------------------------
// C11

#[derive(Clone, Debug, Serialize, Deserialize)]
pub struct C11Case {
    pub width: u8,
    pub extra_threads: u8,
    /// 0 user pool, 1 default pool, 2 inside a batch, 3 async dispatcher, 4 default pool with a narrow batch registered before the wide stage, 5 inside a batch that is registered before the pool is attached, 6 like 5 with a one-thread pool attached first and replaced, 7 inside a batch inside a batch with the pool attached to the outermost builder last (the innermost dispatcher gets a default pool of its own), 8 like 7 with the pool given to every builder, 9 four batch levels on one pool, 10 user pool that another dispatcher used before for dispatches whose panics were caught
    pub mode: u8,
    /// number of groups that get a second, chained member (positions >= 1 do not rendezvous)
    pub tail: u8,
    /// add a later stage with a single group
    #[serde(default)]
    pub join: bool,
    /// running-time hints: 0 = one long group + short ones, 1 = all VeryShort, 2 = all Average
    #[serde(default)]
    pub hints: u8,
    /// call dispatch from a worker of a different (1-thread) pool
    #[serde(default)]
    pub from_foreign_pool: bool,
}

pub struct C11;

fn c11_plan(case: &C11Case) -> Plan {
    use crate::plan::{Ctl, Op};
    let w = case.width.clamp(2, 16) as usize;
    // group 0 is the long one; the others are short so that chained members join their group
    let mut ops: Vec<Op> = (0..w)
        .map(|i| Op::Sys {
            name: format!("w{}", i),
            deps: vec![],
            reads: vec![],
            writes: vec![],
            rt: match case.hints % 3 {
                0 => {
                    if i == 0 {
                        5
                    } else {
                        1
                    }
                }
                1 => 1,
                _ => 3,
            },
            kind: Kind::Dyn,
            extra_deps: vec![],
        })
        .collect();
    // `tail` groups get a second member (same stage, more systems than groups)
    for i in 1..=(case.tail as usize).min(w - 1) {
        ops.push(Op::Sys {
            name: format!("t{}", i),
            deps: vec![i],
            reads: vec![],
            writes: vec![],
            rt: 1,
            kind: Kind::Dyn,
            extra_deps: vec![],
        });
    }
    if case.join {
        // a later single-group stage
        ops.push(Op::Sys {
            name: "join".into(),
            deps: vec![0],
            reads: vec![],
            writes: vec![],
            rt: 3,
            kind: Kind::Dyn,
            extra_deps: vec![],
        });
    }
    if case.mode == 4 {
        // a narrow batch registered FIRST (its dispatcher is built first and touches the shared
        // pool slot first), then the wide stage beside it
        let mut all = vec![Op::Batch {
            name: "narrow".into(),
            deps: vec![],
            decl: 0,
            ctl: Ctl::Custom { n: 1 },
            rt: 1,
            inner: vec![Op::Sys {
                name: "only".into(),
                deps: vec![],
                reads: vec![],
                writes: vec![],
                rt: 3,
                kind: Kind::Dyn,
                extra_deps: vec![],
            }],
            extra_deps: vec![],
        }];
        for op in ops {
            // dependency indices shift by one
            all.push(match op {
                Op::Sys {
                    name,
                    deps,
                    reads,
                    writes,
                    rt,
                    kind,
                    extra_deps,
                } => Op::Sys {
                    name,
                    deps: deps.into_iter().map(|d| d + 1).collect(),
                    reads,
                    writes,
                    rt,
                    kind,
                    extra_deps,
                },
                o => o,
            });
        }
        return all;
    }
    if matches!(case.mode, 2 | 5 | 6 | 7 | 8 | 9) {
        let one = vec![Op::Batch {
            name: "batch".into(),
            deps: vec![],
            decl: 0,
            ctl: Ctl::Custom { n: 2 },
            rt: 3,
            inner: ops,
            extra_deps: vec![],
        }];
        if matches!(case.mode, 7 | 8 | 9) {
            // a batch inside a batch (mode 9: four levels)
            let mut cur = one;
            for level in 0..if case.mode == 9 { 3 } else { 1 } {
                cur = vec![Op::Batch {
                    name: format!("outer{}", level),
                    deps: vec![],
                    decl: 0,
                    ctl: Ctl::Custom { n: 1 },
                    rt: 3,
                    inner: cur,
                    extra_deps: vec![],
                }];
            }
            cur
        } else {
            one
        }
    } else {
        ops
    }
}

static C11_SEEN_MISS: AtomicBool = AtomicBool::new(false);

impl Prop for C11 {
    type Case = C11Case;
    fn name(&self) -> &'static str {
        "c11-rendezvous"
    }
    fn property(&self) -> &'static str {
        "C11"
    }
    fn rule(&self) -> &'static str {
        "stage width 2..16 x pool size = width + 0..3 (capped at 16) x {user pool via with_pool, default pool, stage inside a batch dispatched twice, async dispatcher, default pool shared with a narrow batch registered first, stage inside a batch registered before the (only, or a replacing second) pool is attached, stage inside a batch inside a batch (pool given to every builder, or to the outermost one last), four batch levels deep, a pool on which another dispatcher's dispatches panicked before} x 3 repeated dispatches; oracle: the first system of every group of the widest stage blocks inside run until all of them have arrived; the dispatch must complete with every rendezvous met; a missed rendezvous is retried with 2 s, 5 s, 15 s time-outs and only three misses in a row are a violation; non-trivial = every case (width >= 2); distinct = case hash"
    }
    fn stream_len(&self) -> usize {
        24
    }
    fn gen(&self, src: &mut Src) -> C11Case {
        C11Case {
            width: 2 + src.pick(15) as u8,
            extra_threads: src.pick(4) as u8,
            mode: src.pick(11) as u8,
            tail: src.pick(6) as u8,
            join: src.chance(8, 16),
            hints: src.pick(3) as u8,
            from_foreign_pool: src.chance(4, 16),
        }
    }
    fn check(&self, case: &C11Case, lane: usize, st: &mut Stats) -> Result<(), Fail> {
        let w = case.width.clamp(2, 16) as usize;
        let threads = (w + case.extra_threads as usize).min(16);
        let plan = c11_plan(case);
        st.class(&format!("mode_{}", case.mode));
        st.class(&format!("hints_{}", case.hints % 3));
        if case.from_foreign_pool && case.mode != 3 {
            st.class("dispatched_from_foreign_pool_worker");
        }
        st.class(&format!("width_{}", w));
        // the rendezvous members must be the first systems of the groups of one stage: check that
        // on the real layout of the (un-batched) plan; otherwise the case says nothing
        {
            let flat_case = C11Case {
                mode: 0,
                ..case.clone()
            };
            let twin = build_plan(&c11_plan(&flat_case), pool(lane, 1), &BuildOpts::default())
                .map_err(|e| Fail::keyed("build-or-identify", e))?;
            let l = &twin.layouts.by_bid[&0];
            let ok = !l.stages.is_empty()
                && l.stages[0].len() == w
                && (0..w).all(|i| l.stages[0].iter().any(|g| g[0] == i));
            if !ok {
                st.class("layout_not_as_intended_skipped");
                return Ok(());
            }
            let systems_in_stage: usize = l.stages[0].iter().map(|g| g.len()).sum();
            if systems_in_stage > w {
                st.class("stage_with_more_systems_than_groups");
            }
            if systems_in_stage > threads {
                st.class("stage_with_more_systems_than_pool_threads");
            }
            if l.stages.len() > 1 {
                st.class("with_later_single_group_stage");
            }
        }
        // modes that end up on a default pool (one thread per CPU): nothing is claimed for stages
        // wider than the machine
        if matches!(case.mode, 1 | 4 | 7) {
            let cpus = std::thread::available_parallelism().map(|n| n.get()).unwrap_or(1);
            if w > cpus {
                st.class("skipped_default_pool_smaller_than_the_stage");
                return Ok(());
            }
        }
        let mut last_err = None;
        // once a miss was confirmed, shrinking and later cases use a single short attempt
        let schedule: &[u64] = if C11_SEEN_MISS.load(SeqCst) {
            &[1500]
        } else {
            &[2000, 5000, 15000]
        };
        for (attempt, timeout_ms) in schedule.iter().enumerate() {
            match c11_attempt(case, &plan, lane, threads, *timeout_ms) {
                Ok(met) => {
                    st.class_n("rendezvous_met", met as u64);
                    if attempt > 0 {
                        st.class("needed_retry");
                    }
                    st.nontrivial(case, || json!({"threads": threads, "rendezvous_met": met}));
                    return Ok(());
                }
                Err(e) => last_err = Some(e),
            }
        }
        C11_SEEN_MISS.store(true, SeqCst);
        Err(last_err.unwrap())
    }
    fn max_shrink_iters(&self) -> u32 {
        16
    }
}

fn c11_attempt(
    case: &C11Case,
    plan: &Plan,
    lane: usize,
    threads: usize,
    timeout_ms: u64,
) -> Result<usize, Fail> {
    let flat = Arc::new(compile(plan));
    let ctx = Ctx::new(flat.clone());
    // members: the systems that form the first stage of the builder holding the wide stage
    let wide_bid = match case.mode {
        2 | 5 | 6 => 1,
        7 | 8 => 2,
        9 => 4,
        _ => 0,
    };
    let w = case.width.clamp(2, 16) as usize;
    // mode 4: builder 0 starts with the narrow batch, the wide systems follow it
    let skip = if case.mode == 4 { 1 } else { 0 };
    let members: Vec<usize> = flat.builders[wide_bid].members[skip..skip + w].to_vec();
    let rdv = Arc::new(Rendezvous {
        members,
        arrived: AtomicUsize::new(0),
        timeout_ms: AtomicU64::new(timeout_ms),
        missed: AtomicBool::new(false),
        met: AtomicUsize::new(0),
    });
    let user_pool = if case.mode == 1 || case.mode == 4 {
        None
    } else {
        Some(pool(lane, threads))
    };
    let opts = BuildOpts {
        // modes 5 / 6: the batch is registered before the pool is attached (6: a one-thread pool is
        // attached first and replaced afterwards); the batch follows the builder's pool slot
        pool_attach: match case.mode {
            5 | 7 => 1,
            6 => 2,
            _ => 0,
        },
        ..BuildOpts::default()
    };
    let builder = build_builder(plan, &flat, 0, &ctx, user_pool, &opts)
        .map_err(|e| Fail::new(format!("builder panicked: {}", e.msg)))?;
    if case.mode == 10 {
        // the pool has a past: another dispatcher used it for dispatches that panicked (caught)
        struct Boom;
        impl<'a> shred::System<'a> for Boom {
            type SystemData = ();
            fn run(&mut self, _: ()) {
                std::panic::panic_any(HarnessFault(usize::MAX));
            }
        }
        struct Quiet;
        impl<'a> shred::System<'a> for Quiet {
            type SystemData = ();
            fn run(&mut self, _: ()) {}
        }
        let mut other = shred::DispatcherBuilder::new()
            .with_pool(pool(lane, threads))
            .with(Boom, "boom", &[])
            .with(Quiet, "quiet", &[])
            .build();
        let w = World::empty();
        for _ in 0..4 * threads + 4 {
            let _ = catch_unwind(AssertUnwindSafe(|| other.dispatch(&w)));
        }
    }
    *ctx.rdv.lock().unwrap() = Some(rdv.clone());
    ctx.set_phase(PHASE_RUN);
    let dispatches = 3usize;
    let _ = &flat;
    let inner_factor = if matches!(case.mode, 2 | 5 | 6 | 7 | 8 | 9) { 2 } else { 1 };
    let r = catch_unwind(AssertUnwindSafe(|| {
        if case.mode == 3 {
            let mut d = builder.build_async(fresh_world());
            for _ in 0..dispatches {
                d.dispatch();
                d.wait();
            }
        } else {
            let world = fresh_world();
            if case.from_foreign_pool {
                // the caller is a worker of another, smaller pool: the dispatcher's own pool still
                // has the idle threads (a Dispatcher is not Send: use its sendable form)
                let mut sd = match builder.build().try_into_sendable() {
                    Ok(sd) => sd,
                    Err(_) => panic!("harness: plan without thread-local systems is not sendable"),
                };
                let foreign = pool(lane + 32, 1);
                for _ in 0..dispatches {
                    foreign.install(|| sd.dispatch(&world));
                }
            } else {
                let mut d = builder.build();
                for _ in 0..dispatches {
                    d.dispatch(&world);
                }
            }
        }
    }));
    ctx.set_phase(PHASE_BUILD);
    *ctx.rdv.lock().unwrap() = None;
    if let Err(p) = r {
        return Err(Fail::new(format!("dispatch panicked: {}", panic_msg(&p))));
    }
    let expected = dispatches * inner_factor * w;
    let met = rdv.met.load(SeqCst);
    if rdv.missed.load(SeqCst) || met != expected {
        return Err(Fail::new(format!(
            "{} side-by-side systems (pool of {} threads, mode {}) were not all inside run at the same time within {} ms: {} of {} rendezvous arrivals met",
            w, threads, case.mode, timeout_ms, met, expected
        )));
    }
    Ok(met)
}

// ------------------------------------------------------------------------------------------------
// C12: conversion to the sendable form

pub struct C12Sendable {
    pub cfg: GenCfg,
}

impl Prop for C12Sendable {
    type Case = Plan;
    fn name(&self) -> &'static str {
        "c12-sendable"
    }
    fn property(&self) -> &'static str {
        "C12"
    }
    fn rule(&self) -> &'static str {
        "general plans with and without thread-local systems; oracle: try_into_sendable is Ok exactly when no thread-local system was registered on the top-level builder; the sendable form has the same executed shape and runs the same systems in the same storage order, each exactly once per dispatch; the Err value is the original dispatcher and still dispatches every system exactly once; non-trivial = >= 2 stages; distinct = plan hash"
    }
    fn gen(&self, src: &mut Src) -> Plan {
        gen_plan(src, &self.cfg)
    }
    fn check(&self, plan: &Plan, lane: usize, st: &mut Stats) -> Result<(), Fail> {
        let b = build_plan(plan, pool(lane, 2), &BuildOpts::default())
            .map_err(|e| Fail::keyed("build-or-identify", e))?;
        let flat = b.flat.clone();
        let (shape0, n_tl) = b.d.verif_shape();
        let l0 = b.layouts.by_bid[&0].clone();
        let has_tl = !flat.builders[0].tls.is_empty();
        if has_tl != (n_tl > 0) {
            return Err(Fail::new("thread-local count of the built dispatcher disagrees with the registrations"));
        }
        let Built { d, ctx, .. } = b;
        let world = fresh_world();
        match d.try_into_sendable() {
            Ok(mut send) => {
                st.class("converted");
                if has_tl {
                    return Err(Fail::new(
                        "try_into_sendable succeeded although thread-local systems were registered",
                    ));
                }
                if send.verif_shape() != shape0 {
                    return Err(Fail::new(format!(
                        "conversion changed the executed shape: {:?} -> {:?}",
                        shape0,
                        send.verif_shape()
                    )));
                }
                // same systems in the same storage order
                ctx.set_phase(PHASE_IDENT);
                for v in ctx.ident.lock().unwrap().iter_mut() {
                    v.clear();
                }
                send.dispatch_seq(&world);
                ctx.set_phase(PHASE_BUILD);
                let ident = ctx.ident.lock().unwrap()[0].clone();
                let flat_order: Vec<usize> = l0.stages.iter().flatten().flatten().cloned().collect();
                if ident != flat_order {
                    return Err(Fail::new(format!(
                        "the sendable form runs systems {:?}, the original plan was {:?}",
                        ident, flat_order
                    )));
                }
                ctx.reset_counters();
                ctx.set_phase(PHASE_RUN);
                let r = catch_unwind(AssertUnwindSafe(|| {
                    send.dispatch(&world);
                    send.dispatch_seq(&world);
                    // the sendable form is a RunNow object too
                    shred::RunNow::run_now(&mut send, &world);
                }));
                ctx.set_phase(PHASE_BUILD);
                ctx.take_log();
                if let Err(p) = r {
                    return Err(Fail::keyed(
                        "panic",
                        format!("dispatching the sendable form panicked: {}", panic_msg(&p)),
                    ));
                }
                // inner `dispatch` calls of batches run their own thread-local systems
                let exp = expected_runs(&flat, 3, 0);
                check_counts(&flat, &ctx.runs(), &exp)?;
                // setup and dispose through the trait reach every system once
                let mut w2 = World::empty();
                ctx.reset_counters();
                ctx.set_phase(PHASE_SETUP);
                let r = catch_unwind(AssertUnwindSafe(|| {
                    shred::RunNow::setup(&mut send, &mut w2);
                    shred::RunNow::dispose(Box::new(send), &mut w2);
                }));
                ctx.set_phase(PHASE_BUILD);
                if let Err(p) = r {
                    return Err(Fail::keyed(
                        "panic",
                        format!("RunNow::setup / dispose of the sendable form panicked: {}", panic_msg(&p)),
                    ));
                }
                for s in flat.sys.iter().filter(|s| !s.is_batch) {
                    let (su, di) = (ctx.setup[s.idx].load(SeqCst), ctx.dispose[s.idx].load(SeqCst));
                    if (su, di) != (1, 1) {
                        return Err(Fail::new(format!(
                            "RunNow::setup / RunNow::dispose of the sendable form reached system {} {} / {} times, expected once each",
                            s.sid(),
                            su,
                            di
                        )));
                    }
                }
            }
            Err(mut d) => {
                st.class("refused");
                if !has_tl {
                    return Err(Fail::new(
                        "try_into_sendable failed although no thread-local system was registered",
                    ));
                }
                if d.verif_shape() != (shape0.clone(), n_tl) {
                    return Err(Fail::new("the dispatcher handed back by a refused conversion has a different shape"));
                }
                ctx.reset_counters();
                ctx.set_phase(PHASE_RUN);
                let r = catch_unwind(AssertUnwindSafe(|| d.dispatch(&world)));
                ctx.set_phase(PHASE_BUILD);
                ctx.take_log();
                if let Err(p) = r {
                    let msg = panic_msg(&p);
                    let key = if msg.contains("already") && msg.contains("borrowed") {
                        "borrow-panic-with-tl-in-batch"
                    } else {
                        "panic"
                    };
                    return Err(Fail::keyed(
                        key,
                        format!("dispatching after a refused conversion panicked: {}", msg),
                    ));
                }
                let exp = expected_runs(&flat, 1, 1);
                check_counts(&flat, &ctx.runs(), &exp)?;
            }
        }
        if shape0.len() >= 2 {
            st.nontrivial(plan, || json!({"shape": shape0, "thread_local": n_tl}));
        }
        Ok(())
    }
    fn simplify(&self, case: &Plan) -> Vec<Plan> {
        simplify_plan(case)
    }
}

// ------------------------------------------------------------------------------------------------
// C12: thread-local guarantees survive a caught panic of a thread-local system

pub struct C12AfterPanic {
    pub cfg: GenCfg,
    pub property: &'static str,
    pub name: &'static str,
    /// only the asynchronous dispatcher (the C15 registration)
    pub only_async: bool,
}

#[derive(Clone, Debug, Serialize, Deserialize)]
pub struct C12PanicCase {
    pub plan: Plan,
    /// selects the thread-local system that panics in the first dispatch
    pub which: u16,
    pub point: u8,
    /// use the asynchronous dispatcher: the thread-local system panics inside wait()
    #[serde(default)]
    pub asynchronous: bool,
}

impl C12AfterPanic {
    fn check_async(&self, case: &C12PanicCase, lane: usize, st: &mut Stats) -> Result<(), Fail> {
        let tp = pool(lane, 2);
        let flat = Arc::new(compile(&case.plan));
        let tls = flat.builders[0].tls.clone();
        if tls.is_empty() {
            st.class("no_thread_local_skipped");
            return Ok(());
        }
        let ctx = Ctx::new(flat.clone());
        let builder = build_builder(&case.plan, &flat, 0, &ctx, Some(tp), &BuildOpts::default())
            .map_err(|e| Fail::new(format!("builder panicked: {}", e.msg)))?;
        let mut ad = catch_unwind(AssertUnwindSafe(|| builder.build_async(fresh_world())))
            .map_err(|p| Fail::new(format!("build_async panicked: {}", panic_msg(&p))))?;
        let victim = tls[(case.which as usize * tls.len()) >> 16];
        let caller = thread_no();
        ctx.set_phase(PHASE_RUN);
        ctx.fault[victim].store(case.point.clamp(1, 3), SeqCst);
        ad.dispatch();
        let r = catch_unwind(AssertUnwindSafe(|| ad.wait()));
        ctx.fault[victim].store(FAULT_NONE, SeqCst);
        let result: Result<(), Fail> = (|| {
            if r.is_ok() {
                return Err(Fail::new(
                    "a thread-local system panicked inside wait() but wait() returned normally",
                ));
            }
            let _ = ctx.take_log();
            for round in 0..2 {
                ctx.reset_counters();
                ad.dispatch();
                let r = catch_unwind(AssertUnwindSafe(|| ad.wait()));
                if let Err(p) = &r {
                    return Err(Fail::new(format!(
                        "wait() {} after the caught panic panicked: {}",
                        round,
                        describe_panic(p)
                    )));
                }
                let log = ctx.take_log();
                let mut wins = windows(&flat, &log);
                close_multi_windows(&flat, &mut wins);
                check_thread_local(&flat, &wins, caller, 1).map_err(|f| Fail {
                    msg: format!("asynchronous dispatcher, after a caught thread-local panic in wait(): {}", f.msg),
                    key: f.key,
                })?;
                check_counts(&flat, &ctx.runs(), &expected_runs(&flat, 1, 1)).map_err(|f| {
                    Fail::new(format!(
                        "asynchronous dispatcher, after a caught thread-local panic in wait(): {}",
                        f.msg
                    ))
                })?;
            }
            Ok(())
        })();
        let _ = catch_unwind(AssertUnwindSafe(|| ad.wait_without_tl()));
        ctx.set_phase(PHASE_BUILD);
        result?;
        st.class("asynchronous");
        if tls.len() >= 2 {
            st.nontrivial(case, || json!({"thread_local": tls.len(), "asynchronous": true}));
        }
        Ok(())
    }
}

impl Prop for C12AfterPanic {
    type Case = C12PanicCase;
    fn name(&self) -> &'static str {
        self.name
    }
    fn property(&self) -> &'static str {
        self.property
    }
    fn rule(&self) -> &'static str {
        "plans with >= 1 top-level thread-local system; one generated thread-local system panics (before its fetch / inside run / after its release) in a first dispatch (or, for 5/16 of the cases, inside wait() of the asynchronous dispatcher built from the same registrations) whose panic is caught; oracle on the following dispatches (dispatch + wait) of the same dispatcher: every thread-local system still runs exactly once per dispatch, on the dispatching thread, after all ordinary systems, in registration order, and try_into_sendable still refuses; non-trivial = >= 2 thread-local systems; distinct = case hash"
    }
    fn gen(&self, src: &mut Src) -> C12PanicCase {
        let which = src.raw();
        let point = 1 + src.pick(3) as u8;
        let asynchronous = src.chance(5, 16) || self.only_async;
        C12PanicCase {
            plan: gen_plan(src, &self.cfg),
            which,
            point,
            asynchronous,
        }
    }
    fn check(&self, case: &C12PanicCase, lane: usize, st: &mut Stats) -> Result<(), Fail> {
        if case.asynchronous || self.only_async {
            return self.check_async(case, lane, st);
        }
        let mut b = build_plan(&case.plan, pool(lane, 2), &BuildOpts::default())
            .map_err(|e| Fail::keyed("build-or-identify", e))?;
        let flat = b.flat.clone();
        let tls = flat.builders[0].tls.clone();
        if tls.is_empty() {
            st.class("no_thread_local_skipped");
            return Ok(());
        }
        let victim = tls[(case.which as usize * tls.len()) >> 16];
        let world = fresh_world();
        b.ctx.fault[victim].store(case.point.clamp(1, 3), SeqCst);
        let out = run_call(&mut b, &world, Entry::Dispatch, None, Duration::from_millis(3000));
        b.ctx.fault[victim].store(FAULT_NONE, SeqCst);
        if out.panic.is_none() {
            return Err(Fail::new("a thread-local system panicked but dispatch returned normally"));
        }
        check_all_free(&world)?;
        for round in 0..2 {
            b.ctx.reset_counters();
            let out = run_call(&mut b, &world, Entry::Dispatch, None, Duration::from_millis(3000));
            if let Some(p) = &out.panic {
                return Err(Fail::new(format!(
                    "dispatch {} after the caught panic panicked: {}",
                    round,
                    describe_panic(p)
                )));
            }
            let mut wins = windows(&flat, &out.log);
            close_multi_windows(&flat, &mut wins);
            check_thread_local(&flat, &wins, out.caller_thread, 1)
                .map_err(|f| Fail { msg: format!("after a caught thread-local panic: {}", f.msg), key: f.key })?;
            check_counts(&flat, &b.ctx.runs(), &expected_runs(&flat, 1, 1))
                .map_err(|f| Fail::new(format!("after a caught thread-local panic: {}", f.msg)))?;
        }
        let Built { d, .. } = b;
        if d.try_into_sendable().is_ok() {
            return Err(Fail::new(
                "after a caught thread-local panic try_into_sendable succeeds although thread-local systems were registered",
            ));
        }
        if tls.len() >= 2 {
            st.nontrivial(case, || json!({"thread_local": tls.len()}));
        }
        Ok(())
    }
    fn simplify(&self, case: &C12PanicCase) -> Vec<C12PanicCase> {
        simplify_plan(&case.plan)
            .into_iter()
            .map(|p| C12PanicCase {
                plan: p,
                ..case.clone()
            })
            .collect()
    }
}

// ------------------------------------------------------------------------------------------------
// C04: arbitrary sequences of dispatch / dispatch_seq / dispatch_par / dispatch_thread_local calls

pub struct C04Calls {
    pub cfg: GenCfg,
}

#[derive(Clone, Debug, Serialize, Deserialize)]
pub struct C04CallsCase {
    pub plan: Plan,
    pub calls: Vec<Entry>,
    pub threads: u8,
    pub jitter: Vec<u16>,
    /// (call index, system selector, fault point): that call runs with one system armed to panic;
    /// the panic is caught and the history goes on with the same dispatcher
    #[serde(default)]
    pub faults: Vec<(u8, u16, u8)>,
    /// call indices before which the world value is moved to another address
    #[serde(default)]
    pub moves: Vec<u8>,
    /// the calls alternate between two worlds
    #[serde(default)]
    pub two_worlds: bool,
}

impl Prop for C04Calls {
    type Case = C04CallsCase;
    fn name(&self) -> &'static str {
        "c04-call-sequences"
    }
    fn property(&self) -> &'static str {
        "C04"
    }
    fn rule(&self) -> &'static str {
        "plans (nested batches with custom / MultiDispatcher controllers, thread-local systems incl. inside batches) x a generated sequence of 1..8 calls drawn from dispatch / dispatch_par / dispatch_seq / dispatch_thread_local / RunNow::run_now on ONE dispatcher x pool size 1..16 or no pool attached at all (rayon's default) x per-system delays; oracle after every call: counter of every ordinary system == number of calls so far that run ordinary systems, every top-level thread-local counter == number of dispatch + dispatch_thread_local calls, inner systems == enclosing batch runs x its dispatch count, nothing is left borrowed; before 1/4 of the histories' calls the world value is moved to another address; 3/16 of the histories alternate between two worlds; 5/16 of the histories arm one or two calls with a system that panics (caught): counting restarts after such a call and every later call must again run everything exactly once; non-trivial = >= 3 calls of >= 2 different kinds on a plan with >= 2 stages or a batch; distinct = case hash"
    }
    fn gen(&self, src: &mut Src) -> C04CallsCase {
        // 0: no pool is attached, the dispatcher makes rayon's default pool for itself
        let threads = [1u8, 2, 3, 4, 8, 16, 0, 2][src.pick(8)];
        let n = 1 + src.pick(8);
        let calls = (0..n)
            .map(|_| {
                [
                    Entry::Dispatch,
                    Entry::Par,
                    Entry::Seq,
                    Entry::TlOnly,
                    Entry::RunNowTrait,
                ][src.pick(5)]
            })
            .collect();
        let plan = gen_plan(src, &self.cfg);
        let jitter = (0..40).map(|_| src.raw()).collect();
        let mut faults = vec![];
        if src.chance(5, 16) {
            for _ in 0..1 + src.pick(2) {
                faults.push((src.pick(n) as u8, src.raw(), 1 + src.pick(3) as u8));
            }
        }
        let mut moves = vec![];
        if src.chance(4, 16) {
            for _ in 0..1 + src.pick(2) {
                moves.push(src.pick(n) as u8);
            }
        }
        let two_worlds = src.chance(3, 16);
        C04CallsCase {
            plan,
            calls,
            threads,
            jitter,
            faults,
            moves,
            two_worlds,
        }
    }
    fn check(&self, case: &C04CallsCase, lane: usize, st: &mut Stats) -> Result<(), Fail> {
        let threads = case.threads.clamp(1, 16) as usize;
        let opts = BuildOpts {
            no_pool: case.threads == 0,
            ..BuildOpts::default()
        };
        if opts.no_pool {
            st.class("default_pool");
        }
        let mut b = build_plan(&case.plan, pool(lane, threads), &opts)
            .map_err(|e| Fail::keyed("build-or-identify", e))?;
        oracles::check_complete(&b.flat, &b.layouts)?;
        let flat = b.flat.clone();
        for i in 0..flat.sys.len() {
            b.ctx.jitter_run[i].store((case.jitter.get(i).cloned().unwrap_or(0) % 4) as u32, SeqCst);
        }
        let mut world = Box::new(fresh_world());
        let mut other_world = Box::new(fresh_world());
        if case.two_worlds {
            st.class("calls_alternate_between_two_worlds");
        }
        b.ctx.reset_counters();
        let (mut ord, mut tl) = (0u32, 0u32);
        let mut recovered = 0;
        for (k, entry) in case.calls.iter().enumerate() {
            if case.two_worlds {
                std::mem::swap(&mut world, &mut other_world);
            }
            if case.moves.iter().any(|m| *m as usize == k) {
                // a World is an ordinary movable value: the new allocation exists before the old one
                // is freed, so the address really changes
                let mut nb = Box::new(World::empty());
                std::mem::swap(&mut *nb, &mut *world);
                world = nb;
                st.class("world_moved_between_calls");
            }
            let armed: Vec<usize> = case
                .faults
                .iter()
                .filter(|f| f.0 as usize == k && !flat.sys.is_empty())
                .map(|f| (f.1 as usize * flat.sys.len()) >> 16)
                .collect();
            if !armed.is_empty() {
                for (a, f) in armed.iter().zip(case.faults.iter().filter(|f| f.0 as usize == k)) {
                    b.ctx.fault[*a].store(f.2.clamp(1, 3), SeqCst);
                }
                let out = run_call(&mut b, &world, *entry, None, Duration::from_millis(3000));
                for a in &armed {
                    b.ctx.fault[*a].store(FAULT_NONE, SeqCst);
                }
                if let Some(p) = &out.panic {
                    if p.downcast_ref::<HarnessFault>().is_none() {
                        return Err(Fail::keyed(
                            "panic",
                            format!("call {} ({:?}) with an armed system panicked with a foreign payload: {}", k, entry, describe_panic(p)),
                        ));
                    }
                    // a dispatch that panicked is not a completed dispatch: counting restarts
                    check_all_free(&world)?;
                    b.ctx.reset_counters();
                    ord = 0;
                    tl = 0;
                    recovered += 1;
                    continue;
                }
                // the armed system was not reached by this entry point: an ordinary call
            } else {
            let out = run_call(&mut b, &world, *entry, None, Duration::from_millis(3000));
            if let Some(p) = &out.panic {
                return Err(Fail::keyed(
                    "panic",
                    format!("call {} ({:?}) panicked: {}", k, entry, describe_panic(p)),
                ));
            }
            }
            if entry.runs_ordinary() {
                ord += 1;
            }
            if entry.runs_tl() {
                tl += 1;
            }
            check_counts(&flat, &b.ctx.runs(), &expected_runs(&flat, ord, tl))
                .map_err(|f| Fail::new(format!("after call {} ({:?}): {}", k, entry, f.msg)))?;
            check_all_free(&world)?;
        }
        let kinds: BTreeSet<String> = case.calls.iter().map(|e| format!("{:?}", e)).collect();
        let interesting = b.layouts.by_bid[&0].stages.len() >= 2 || flat.sys.iter().any(|s| s.is_batch);
        if recovered > 0 {
            st.class("histories_with_a_caught_panic");
        }
        if case.calls.len() >= 3 && kinds.len() >= 2 && interesting {
            st.nontrivial(case, || json!({"calls": case.calls.len(), "caught_panics": recovered}));
        }
        Ok(())
    }
    fn simplify(&self, case: &C04CallsCase) -> Vec<C04CallsCase> {
        let mut out: Vec<C04CallsCase> = simplify_plan(&case.plan)
            .into_iter()
            .map(|p| C04CallsCase {
                plan: p,
                ..case.clone()
            })
            .collect();
        for i in (0..case.calls.len()).rev() {
            if case.calls.len() > 1 && !case.faults.iter().any(|f| f.0 as usize >= i) && !case.moves.iter().any(|m| *m as usize >= i) {
                let mut c = case.clone();
                c.calls.remove(i);
                out.push(c);
            }
        }
        for i in 0..case.faults.len() {
            let mut c = case.clone();
            c.faults.remove(i);
            out.push(c);
        }
        for i in 0..case.moves.len() {
            let mut c = case.clone();
            c.moves.remove(i);
            out.push(c);
        }
        out
    }
}


// ------------------------------------------------------------------------------------------------
// C04: two dispatchers that share one pool and are dispatched at the same time from two threads

pub struct C04Two {
    pub cfg: GenCfg,
}

#[derive(Clone, Debug, Serialize, Deserialize)]
pub struct C04TwoCase {
    pub a: Plan,
    pub b: Plan,
    pub threads: u8,
    pub rounds: u8,
}

impl Prop for C04Two {
    type Case = C04TwoCase;
    fn name(&self) -> &'static str {
        "c04-two-dispatchers"
    }
    fn property(&self) -> &'static str {
        "C04"
    }
    fn rule(&self) -> &'static str {
        "two generated plans built into two dispatchers that share ONE pool (1..8 threads), each with a world of its own, dispatched 1..6 times at the same time from two threads (each dispatcher is built and used on its own thread); oracle: no panic, afterwards every counter of both dispatchers equals its dispatch count x inner dispatch counts and nothing is left borrowed in either world; non-trivial = both plans have >= 2 systems; distinct = case hash"
    }
    fn stream_len(&self) -> usize {
        500
    }
    fn max_shrink_iters(&self) -> u32 {
        60
    }
    fn gen(&self, src: &mut Src) -> C04TwoCase {
        let threads = [1u8, 2, 3, 4, 8][src.pick(5)];
        let rounds = 1 + src.pick(6) as u8;
        let a = gen_plan(src, &self.cfg);
        let b = gen_plan(src, &self.cfg);
        C04TwoCase { a, b, threads, rounds }
    }
    fn check(&self, case: &C04TwoCase, lane: usize, st: &mut Stats) -> Result<(), Fail> {
        let threads = case.threads.clamp(1, 16) as usize;
        let rounds = case.rounds.clamp(1, 8) as u32;
        let tp = pool(lane, threads);
        // start line with a time-out: a side that fails to build must not leave the other one waiting
        let arrived = AtomicUsize::new(0);
        let run_one = |plan: &Plan, which: &str| -> Result<usize, Fail> {
            let mut b = build_plan(plan, tp.clone(), &BuildOpts::default())
                .map_err(|e| Fail::keyed("build-or-identify", e))?;
            let flat = b.flat.clone();
            let world = fresh_world();
            b.ctx.reset_counters();
            arrived.fetch_add(1, SeqCst);
            let t0 = std::time::Instant::now();
            while arrived.load(SeqCst) < 2 && t0.elapsed() < Duration::from_secs(5) {
                std::thread::yield_now();
            }
            for k in 0..rounds {
                let out = run_call(&mut b, &world, Entry::Dispatch, None, Duration::from_millis(3000));
                if let Some(p) = &out.panic {
                    return Err(Fail::keyed(
                        "panic",
                        format!("dispatcher {} dispatch {} panicked: {}", which, k, describe_panic(p)),
                    ));
                }
            }
            check_counts(&flat, &b.ctx.runs(), &expected_runs(&flat, rounds, rounds))
                .map_err(|f| Fail::new(format!("dispatcher {} (sharing its pool with a second dispatcher that runs at the same time): {}", which, f.msg)))?;
            check_all_free(&world)?;
            Ok(flat.sys.len())
        };
        let (ra, rb) = std::thread::scope(|sc| {
            let ha = sc.spawn(|| {
                catch_unwind(AssertUnwindSafe(|| run_one(&case.a, "A")))
            });
            let rb = catch_unwind(AssertUnwindSafe(|| run_one(&case.b, "B")));
            (ha.join().expect("harness: thread A"), rb)
        });
        let unwrap = |r: std::thread::Result<Result<usize, Fail>>| -> Result<usize, Fail> {
            match r {
                Ok(x) => x,
                Err(p) => Err(Fail::new(format!("harness thread panicked: {}", panic_msg(&p)))),
            }
        };
        let na = unwrap(ra)?;
        let nb = unwrap(rb)?;
        if na >= 2 && nb >= 2 {
            st.nontrivial(case, || json!({"systems": [na, nb], "rounds": rounds}));
        }
        Ok(())
    }
    fn simplify(&self, case: &C04TwoCase) -> Vec<C04TwoCase> {
        let mut out = vec![];
        for p in simplify_plan(&case.a) {
            out.push(C04TwoCase { a: p, ..case.clone() });
        }
        for p in simplify_plan(&case.b) {
            out.push(C04TwoCase { b: p, ..case.clone() });
        }
        out
    }
}

// ------------------------------------------------------------------------------------------------
// C04: planned counts of a MultiDispatcher batch around the powers of two

pub struct C04BigPlan;

#[derive(Clone, Debug, Serialize, Deserialize)]
pub struct C04BigPlanCase {
    /// planned = 2^k + delta - 1, k in 1..=16, delta in 0..=2
    pub k: u8,
    pub delta: u8,
    pub inner: u8,
    pub sequential: bool,
    /// instead of one dispatch of a batch that plans n inner dispatches: n dispatches of a plain
    /// dispatcher
    #[serde(default)]
    pub many_dispatches: bool,
}

impl Prop for C04BigPlan {
    type Case = C04BigPlanCase;
    fn name(&self) -> &'static str {
        "c04-planned-counts"
    }
    fn property(&self) -> &'static str {
        "C04"
    }
    fn rule(&self) -> &'static str {
        "one MultiDispatcher batch with 1..3 inner systems whose controller plans 2^k - 1, 2^k or 2^k + 1 inner dispatches (k = 1..16: the values around every width a counter might be narrowed to), dispatched once with dispatch or dispatch_seq on a one-thread pool - or, in 3/8 of the cases, a plain dispatcher of 1..3 systems dispatched that many times; oracle: every system has run exactly that number of times; non-trivial = planned >= 255; distinct = case hash"
    }
    fn stream_len(&self) -> usize {
        8
    }
    fn max_shrink_iters(&self) -> u32 {
        20
    }
    fn gen(&self, src: &mut Src) -> C04BigPlanCase {
        // small exponents are cheap and frequent, the large ones rarer
        let k = if src.chance(12, 16) { 1 + src.pick(10) } else { 11 + src.pick(6) } as u8;
        C04BigPlanCase {
            k,
            delta: src.pick(3) as u8,
            inner: 1 + src.pick(3) as u8,
            sequential: src.chance(8, 16),
            many_dispatches: src.chance(6, 16),
        }
    }
    fn check(&self, case: &C04BigPlanCase, lane: usize, st: &mut Stats) -> Result<(), Fail> {
        use crate::plan::{Ctl, Op};
        let k = case.k.clamp(1, 16) as u32;
        let planned = (1u32 << k) + case.delta.min(2) as u32 - 1;
        let inner: Vec<Op> = (0..case.inner.clamp(1, 3))
            .map(|i| Op::Sys {
                name: format!("i{}", i),
                deps: vec![],
                reads: vec![],
                writes: vec![],
                rt: 3,
                kind: Kind::Dyn,
                extra_deps: vec![],
            })
            .collect();
        if case.many_dispatches {
            // the 2^k-th use of one dispatcher
            let mut b = build_plan(&inner, pool(lane, 1), &BuildOpts::default())
                .map_err(|e| Fail::keyed("build-or-identify", e))?;
            let flat = b.flat.clone();
            let world = fresh_world();
            b.ctx.reset_counters();
            b.ctx.log_on.store(false, SeqCst);
            b.ctx.set_phase(PHASE_RUN);
            let r = catch_unwind(AssertUnwindSafe(|| {
                for _ in 0..planned {
                    if case.sequential {
                        b.d.dispatch_seq(&world);
                    } else {
                        b.d.dispatch(&world);
                    }
                }
            }));
            b.ctx.set_phase(PHASE_BUILD);
            b.ctx.log_on.store(true, SeqCst);
            if let Err(p) = r {
                return Err(Fail::keyed("panic", format!("one of {} dispatches panicked: {}", planned, describe_panic(&p))));
            }
            check_counts(&flat, &b.ctx.runs(), &expected_runs(&flat, planned, 0))
                .map_err(|f| Fail::new(format!("after {} dispatches of one dispatcher: {}", planned, f.msg)))?;
            st.class(&format!("dispatches_2^{}", k));
            if planned >= 255 {
                st.nontrivial(case, || json!({"dispatches": planned}));
            }
            return Ok(());
        }
        let plan = vec![Op::Batch {
            name: "batch".into(),
            deps: vec![],
            decl: 0,
            ctl: Ctl::Multi { planned },
            rt: 3,
            inner,
            extra_deps: vec![],
        }];
        let mut b = build_plan(&plan, pool(lane, 1), &BuildOpts::default())
            .map_err(|e| Fail::keyed("build-or-identify", e))?;
        let flat = b.flat.clone();
        let world = fresh_world();
        b.ctx.reset_counters();
        // the event log would grow with every inner dispatch
        b.ctx.log_on.store(false, SeqCst);
        let entry = if case.sequential { Entry::SeqTl } else { Entry::Dispatch };
        let out = run_call(&mut b, &world, entry, None, Duration::from_millis(60_000));
        b.ctx.log_on.store(true, SeqCst);
        if let Some(p) = &out.panic {
            return Err(Fail::keyed("panic", format!("dispatch panicked: {}", describe_panic(p))));
        }
        check_counts(&flat, &b.ctx.runs(), &expected_runs(&flat, 1, 1)).map_err(|f| {
            Fail::new(format!("controller planned {} inner dispatches: {}", planned, f.msg))
        })?;
        st.class(&format!("planned_2^{}", k));
        if planned >= 255 {
            st.nontrivial(case, || json!({"planned": planned}));
        }
        Ok(())
    }
}
