//! C16: trees of real `Par` / `Seq` nodes, built at run time through a boxing adapter.

use std::collections::BTreeSet;
use std::panic::{catch_unwind, AssertUnwindSafe};
use std::sync::atomic::Ordering::SeqCst;
use std::sync::Arc;

use rayon::ThreadPool;
use serde::{Deserialize, Serialize};
use serde_json::json;
use shred::{Par, ParSeq, ResourceId, RunWithPool, Seq, World};

use crate::build::{panic_msg, pool};
use crate::driver::{Fail, Prop, Stats};
use crate::exec::{check_all_free, fresh_world, windows};
use crate::hsys::*;
use crate::plan::{compile, conflict_sets, Kind, Op, Src};
use crate::res::{self, Res};

#[derive(Clone, Debug, Serialize, Deserialize, PartialEq)]
pub enum Tree {
    Leaf { reads: Vec<Res>, writes: Vec<Res> },
    Par(Vec<Tree>),
    Seq(Vec<Tree>),
}

#[derive(Clone, Debug, Serialize, Deserialize)]
pub struct Plant {
    /// path (child indices from the root) of the par node
    pub node: Vec<usize>,
    /// index of the child whose addition must be rejected
    pub child: usize,
}

#[derive(Clone, Debug, Serialize, Deserialize)]
pub struct C16Case {
    pub tree: Tree,
    pub plant: Option<Plant>,
    pub threads: u8,
    pub inside_pool: bool,
    pub jitter: Vec<u16>,
    pub repeats: u8,
}

pub struct C16;

/// dynamic node: lets trees be assembled at run time from the real `Par` / `Seq` types
pub struct BoxNode(Box<dyn for<'a> RunWithPool<'a> + Send>);

impl<'a> RunWithPool<'a> for BoxNode {
    fn setup(&mut self, world: &mut World) {
        self.0.setup(world)
    }
    fn run(&mut self, world: &'a World, pool: &ThreadPool) {
        self.0.run(world, pool)
    }
    fn reads(&self, reads: &mut Vec<ResourceId>) {
        self.0.reads(reads)
    }
    fn writes(&self, writes: &mut Vec<ResourceId>) {
        self.0.writes(writes)
    }
}

fn leaves<'t>(t: &'t Tree, out: &mut Vec<&'t Tree>) {
    match t {
        Tree::Leaf { .. } => out.push(t),
        Tree::Par(c) | Tree::Seq(c) => c.iter().for_each(|x| leaves(x, out)),
    }
}

fn access(t: &Tree) -> (BTreeSet<Res>, BTreeSet<Res>) {
    let mut ls = vec![];
    leaves(t, &mut ls);
    let mut r = BTreeSet::new();
    let mut w = BTreeSet::new();
    for l in ls {
        if let Tree::Leaf { reads, writes } = l {
            r.extend(reads.iter().cloned());
            w.extend(writes.iter().cloned());
        }
    }
    (r, w)
}

fn strip(t: &mut Tree, acc_r: &BTreeSet<Res>, acc_w: &BTreeSet<Res>) {
    match t {
        Tree::Leaf { reads, writes } => {
            writes.retain(|x| !acc_r.contains(x) && !acc_w.contains(x));
            reads.retain(|x| !acc_w.contains(x));
        }
        Tree::Par(c) | Tree::Seq(c) => c.iter_mut().for_each(|x| strip(x, acc_r, acc_w)),
    }
}

/// make every par node's children pairwise compatible (children keep what does not conflict with
/// the union of the children in front of them)
fn repair(t: &mut Tree) {
    match t {
        Tree::Leaf { reads, writes } => {
            let w: Vec<Res> = writes.clone();
            reads.retain(|x| !w.contains(x));
            let mut seen = vec![];
            writes.retain(|x| {
                if seen.contains(x) {
                    false
                } else {
                    seen.push(*x);
                    true
                }
            });
        }
        Tree::Seq(c) => c.iter_mut().for_each(repair),
        Tree::Par(c) => {
            c.iter_mut().for_each(repair);
            let mut acc_r = BTreeSet::new();
            let mut acc_w = BTreeSet::new();
            for child in c.iter_mut() {
                strip(child, &acc_r, &acc_w);
                let (r, w) = access(child);
                acc_r.extend(r);
                acc_w.extend(w);
            }
        }
    }
}

thread_local! {
    static HUGE: std::cell::Cell<bool> = const { std::cell::Cell::new(false) };
}

fn gen_tree(src: &mut Src, depth: usize, universe: &[Res]) -> Tree {
    let leaf = depth >= 5 || src.chance(if depth == 0 { 2 } else { 7 }, 16);
    if leaf {
        let many = HUGE.with(|h| h.get());
        let nw = src.pick(if many { 4 } else { 3 });
        let nr = src.pick(if many { 16 } else { 3 });
        let writes = (0..nw).map(|_| universe[src.pick(universe.len())]).collect();
        let reads = (0..nr).map(|_| universe[src.pick(universe.len())]).collect();
        return Tree::Leaf { reads, writes };
    }
    let fan = if depth == 0 && HUGE.with(|h| h.get()) {
        5 + src.pick(2)
    } else {
        1 + src.pick(6)
    };
    let kids: Vec<Tree> = (0..fan).map(|_| gen_tree(src, depth + 1, universe)).collect();
    if (depth == 0 && HUGE.with(|h| h.get())) || src.chance(8, 16) {
        Tree::Par(kids)
    } else {
        Tree::Seq(kids)
    }
}

fn node_at<'t>(t: &'t Tree, path: &[usize]) -> &'t Tree {
    let mut cur = t;
    for p in path {
        cur = match cur {
            Tree::Par(c) | Tree::Seq(c) => &c[*p],
            _ => panic!("harness: bad tree path"),
        };
    }
    cur
}

fn node_at_mut<'t>(t: &'t mut Tree, path: &[usize]) -> &'t mut Tree {
    let mut cur = t;
    for p in path {
        cur = match cur {
            Tree::Par(c) | Tree::Seq(c) => &mut c[*p],
            _ => panic!("harness: bad tree path"),
        };
    }
    cur
}

fn par_nodes(t: &Tree, prefix: &mut Vec<usize>, out: &mut Vec<Vec<usize>>) {
    match t {
        Tree::Leaf { .. } => {}
        Tree::Par(c) => {
            if c.len() >= 2 {
                out.push(prefix.clone());
            }
            for (i, x) in c.iter().enumerate() {
                prefix.push(i);
                par_nodes(x, prefix, out);
                prefix.pop();
            }
        }
        Tree::Seq(c) => {
            for (i, x) in c.iter().enumerate() {
                prefix.push(i);
                par_nodes(x, prefix, out);
                prefix.pop();
            }
        }
    }
}

fn first_leaf_mut(t: &mut Tree) -> &mut Tree {
    match t {
        Tree::Leaf { .. } => t,
        Tree::Par(c) | Tree::Seq(c) => first_leaf_mut(&mut c[0]),
    }
}

/// plant exactly one conflict: child `j` of a par node gets an access that conflicts with the
/// children in front of it, on a resource nothing else inside child `j` touches
fn plant(src: &mut Src, tree: &mut Tree) -> Option<Plant> {
    let mut nodes = vec![];
    par_nodes(tree, &mut vec![], &mut nodes);
    if nodes.is_empty() {
        return None;
    }
    // huge-universe trees: prefer the root par node and its last child, where the children in
    // front have accumulated the most distinct ids
    let huge = HUGE.with(|h| h.get());
    let node = if huge && nodes.iter().any(|n| n.is_empty()) && src.chance(12, 16) {
        vec![]
    } else {
        nodes[src.pick(nodes.len())].clone()
    };
    let n_children = match node_at(tree, &node) {
        Tree::Par(c) => c.len(),
        _ => return None,
    };
    let j = if huge && node.is_empty() {
        n_children - 1
    } else {
        1 + src.pick(n_children - 1)
    };
    let (mut er, mut ew) = (BTreeSet::new(), BTreeSet::new());
    if let Tree::Par(c) = node_at(tree, &node) {
        for ch in &c[..j] {
            let (r, w) = access(ch);
            er.extend(r);
            ew.extend(w);
        }
    }
    let (jr, jw) = {
        let mut p = node.clone();
        p.push(j);
        access(node_at(tree, &p))
    };
    // candidates: a resource earlier children use and child j does not touch at all
    let cands: Vec<Res> = er
        .iter()
        .chain(ew.iter())
        .cloned()
        .filter(|r| !jr.contains(r) && !jw.contains(r))
        .collect::<BTreeSet<Res>>()
        .into_iter()
        .collect();
    if cands.is_empty() {
        return None;
    }
    // half of the time take the conflicting id from the child directly in front (its ids are the
    // last ones any per-call bookkeeping of the node gets to see)
    let near: Vec<Res> = if let Tree::Par(c) = node_at(tree, &node) {
        let (r, w) = access(&c[j - 1]);
        r.union(&w).cloned().filter(|x| cands.contains(x)).collect()
    } else {
        vec![]
    };
    // ... or (huge trees) from what the earlier children write: writes are looked at after reads
    let late_writes: Vec<Res> = ew.iter().cloned().filter(|x| cands.contains(x)).collect();
    let r = if huge && !late_writes.is_empty() && src.chance(10, 16) {
        late_writes[late_writes.len() - 1 - src.pick(late_writes.len().min(3))]
    } else if !near.is_empty() && src.chance(8, 16) {
        near[src.pick(near.len())]
    } else {
        cands[src.pick(cands.len())]
    };
    let as_write = if ew.contains(&r) { src.chance(8, 16) } else { true };
    let mut p = node.clone();
    p.push(j);
    if let Tree::Leaf { reads, writes } = first_leaf_mut(node_at_mut(tree, &p)) {
        if as_write {
            writes.push(r);
        } else {
            reads.push(r);
        }
    }
    Some(Plant { node, child: j })
}

struct Builder<'c> {
    ctx: &'c Arc<Ctx>,
    next_leaf: usize,
    /// (node path, child index) of the `with` call that panicked
    rejected: Option<(Vec<usize>, usize, String)>,
}

impl Builder<'_> {
    fn build(&mut self, t: &Tree, path: &mut Vec<usize>) -> Option<BoxNode> {
        match t {
            Tree::Leaf { reads, writes } => {
                let idx = self.next_leaf;
                self.next_leaf += 1;
                Some(BoxNode(Box::new(DynSys {
                    acc: HAcc {
                        ctx: self.ctx.clone(),
                        idx,
                        reads: reads.clone(),
                        writes: writes.clone(),
                        provide: true,
                    },
                    rt: 3,
                })))
            }
            Tree::Seq(c) => {
                let mut kids = vec![];
                for (i, ch) in c.iter().enumerate() {
                    path.push(i);
                    let k = self.build(ch, path);
                    path.pop();
                    kids.push(k?);
                }
                let mut it = kids.into_iter();
                let mut node = BoxNode(Box::new(Seq::new(it.next()?)));
                for k in it {
                    node = BoxNode(Box::new(Seq::new(node).with(k)));
                }
                Some(node)
            }
            Tree::Par(c) => {
                let mut kids = vec![];
                for (i, ch) in c.iter().enumerate() {
                    path.push(i);
                    let k = self.build(ch, path);
                    path.pop();
                    kids.push(k?);
                }
                let mut it = kids.into_iter();
                let mut node = BoxNode(Box::new(Par::new(it.next()?)));
                for (i, k) in it.enumerate() {
                    let r = catch_unwind(AssertUnwindSafe(|| Par::new(node).with(k)));
                    match r {
                        Ok(p) => node = BoxNode(Box::new(p)),
                        Err(e) => {
                            self.rejected = Some((path.clone(), i + 1, panic_msg(&e)));
                            return None;
                        }
                    }
                }
                Some(node)
            }
        }
    }
}

/// leaf indices (in build order) of a subtree
fn leaf_ranges(t: &Tree, next: &mut usize) -> Vec<usize> {
    match t {
        Tree::Leaf { .. } => {
            let i = *next;
            *next += 1;
            vec![i]
        }
        Tree::Par(c) | Tree::Seq(c) => c.iter().flat_map(|x| leaf_ranges(x, next)).collect(),
    }
}

fn seq_constraints(t: &Tree, next: &mut usize, out: &mut Vec<(Vec<usize>, Vec<usize>)>) -> Vec<usize> {
    match t {
        Tree::Leaf { .. } => {
            let i = *next;
            *next += 1;
            vec![i]
        }
        Tree::Par(c) => c.iter().flat_map(|x| seq_constraints(x, next, out)).collect(),
        Tree::Seq(c) => {
            let parts: Vec<Vec<usize>> = c.iter().map(|x| seq_constraints(x, next, out)).collect();
            for i in 0..parts.len() {
                for j in i + 1..parts.len() {
                    out.push((parts[i].clone(), parts[j].clone()));
                }
            }
            parts.into_iter().flatten().collect()
        }
    }
}

fn depth(t: &Tree) -> usize {
    match t {
        Tree::Leaf { .. } => 0,
        Tree::Par(c) | Tree::Seq(c) => 1 + c.iter().map(depth).max().unwrap_or(0),
    }
}

impl Prop for C16 {
    type Case = C16Case;
    fn name(&self) -> &'static str {
        "c16-trees"
    }
    fn property(&self) -> &'static str {
        "C16"
    }
    fn rule(&self) -> &'static str {
        "trees (depth <= 5, fan-out <= 6) assembled at run time from the real Par / Seq node types; leaf access sets over 32 resource ids, repaired so that the children of every par node are pairwise compatible (runnable trees), or with exactly one planted conflict at a generated child of a generated par node (rejection trees); pool size {1,2,3,4,8,16}; dispatch from outside and from inside the pool; random per-leaf delays; 1..3 dispatches; oracle (runnable): no panic, every leaf runs exactly once per dispatch, for a seq node every leaf of an earlier child released before any leaf of a later child begins, the root's reads()/writes() equal the union of the leaf declarations, every one of 1..3 setup calls (same world value, emptied in place or not) reaches every leaf once; oracle (rejection, debug assertions on): Par::with panics exactly at the planted child and at no earlier call, with the documented message; 'may overlap' is a permission and is not asserted; non-trivial = >= 1 seq node with >= 2 children and >= 1 par node with >= 2 children, or a rejection tree; distinct = case hash"
    }
    fn stream_len(&self) -> usize {
        400
    }
    fn gen(&self, src: &mut Src) -> C16Case {
        let threads = [1u8, 2, 3, 4, 8, 16][src.pick(6)];
        let inside_pool = src.chance(6, 16);
        let want_plant = src.chance(5, 16);
        let repeats = 1 + src.pick(3) as u8;
        // one case in 8 draws from a huge universe (up to 96 distinct resource ids: dynamic ids up to
        // 11 on each of the 8 types), so that a par node can see more than 64 distinct ids
        let huge = src.chance(2, 16);
        let universe: Vec<Res> = if huge {
            let u = 80 + src.pick(17);
            (0..u).map(|i| Res::new(i % 8, i / 8)).collect()
        } else {
            let u = 2 + src.pick(10);
            let start = src.pick(32);
            (0..u).map(|i| Res::classic((start + i * 5) % 32)).collect()
        };
        HUGE.with(|h| h.set(huge));
        let mut tree = gen_tree(src, 0, &universe);
        repair(&mut tree);
        let plant = if want_plant {
            plant(src, &mut tree)
        } else {
            None
        };
        let jitter = (0..40).map(|_| src.raw()).collect();
        C16Case {
            tree,
            plant,
            threads,
            inside_pool,
            jitter,
            repeats,
        }
    }
    fn check(&self, case: &C16Case, lane: usize, st: &mut Stats) -> Result<(), Fail> {
        let mut ls = vec![];
        leaves(&case.tree, &mut ls);
        let n = ls.len();
        // a synthetic flat plan: one Dyn system per leaf, so that Ctx and the event oracles apply
        let plan: Vec<Op> = ls
            .iter()
            .enumerate()
            .map(|(i, l)| match l {
                Tree::Leaf { reads, writes } => Op::Sys {
                    name: format!("leaf{}", i),
                    deps: vec![],
                    reads: reads.clone(),
                    writes: writes.clone(),
                    rt: 3,
                    kind: Kind::Dyn,
                    extra_deps: vec![],
                },
                _ => unreachable!(),
            })
            .collect();
        let flat = Arc::new(compile(&plan));
        let ctx = Ctx::new(flat.clone());
        let mut b = Builder {
            ctx: &ctx,
            next_leaf: 0,
            rejected: None,
        };
        let root = b.build(&case.tree, &mut vec![]);
        st.class(&format!("depth_{}", depth(&case.tree)));
        {
            let (r, w) = access(&case.tree);
            let distinct: BTreeSet<Res> = r.union(&w).cloned().collect();
            if distinct.len() > 64 {
                st.class("trees_with_more_than_64_distinct_resource_ids");
            }
        }
        match (&case.plant, root, b.rejected) {
            (Some(pl), None, Some((node, child, msg))) => {
                if node != pl.node || child != pl.child {
                    return Err(Fail::new(format!(
                        "Par::with panicked when child {} was added to the par node at {:?}, but the only conflict is child {} of the node at {:?}",
                        child, node, pl.child, pl.node
                    )));
                }
                if !msg.contains("conflicting reads / writes") {
                    return Err(Fail::new(format!("unexpected panic message: {}", msg)));
                }
                st.class("rejection_trees");
                st.nontrivial(case, || json!({"rejected_at": [node, child]}));
                return Ok(());
            }
            (Some(pl), Some(_), _) => {
                return Err(Fail::new(format!(
                    "adding child {} to the par node at {:?} conflicts with the children already there, but no panic was raised (debug assertions are on)",
                    pl.child, pl.node
                )));
            }
            (None, None, Some((node, child, msg))) => {
                return Err(Fail::new(format!(
                    "Par::with panicked ({}) when child {} was added to the par node at {:?} although its access is compatible with the children already there",
                    msg, child, node
                )));
            }
            (_, None, None) => return Err(Fail::new("harness: tree could not be built")),
            (None, Some(root), _) => {
                // union of declarations
                let (mut rr, mut ww) = (vec![], vec![]);
                root.reads(&mut rr);
                root.writes(&mut ww);
                let (er, ew) = access(&case.tree);
                let want_r: BTreeSet<ResourceId> = er.iter().map(|r| res::rid(*r)).collect();
                let want_w: BTreeSet<ResourceId> = ew.iter().map(|r| res::rid(*r)).collect();
                let got_r: BTreeSet<ResourceId> = rr.into_iter().collect();
                let got_w: BTreeSet<ResourceId> = ww.into_iter().collect();
                if got_r != want_r || got_w != want_w {
                    return Err(Fail::new(format!(
                        "the root reports {} reads / {} writes, the union of its leaves' declarations has {} / {}",
                        got_r.len(),
                        got_w.len(),
                        want_r.len(),
                        want_w.len()
                    )));
                }
                let threads = case.threads.clamp(1, 16) as usize;
                let tp = pool(lane, threads);
                let mut ps = ParSeq::new(root, tp.clone());
                let mut world = World::empty();
                ctx.set_phase(PHASE_SETUP);
                // ParSeq has an inherent API and a RunNow implementation: both are used
                let via_run_now = case.jitter.first().map(|j| j % 2 == 1).unwrap_or(false);
                // 1..3 setup calls on the same tree; the world is the same value at the same address,
                // emptied in place before every other call
                let n_setups = 1 + case.jitter.get(1).map(|j| (j % 3) as u32).unwrap_or(0);
                for k in 1..=n_setups {
                    if k > 1 && case.jitter.get(2).map(|j| j % 2 == 0).unwrap_or(false) {
                        world = World::empty();
                    }
                    ctx.set_phase(PHASE_SETUP);
                    let r = catch_unwind(AssertUnwindSafe(|| {
                        if via_run_now {
                            shred::RunNow::setup(&mut ps, &mut world)
                        } else {
                            ps.setup(&mut world)
                        }
                    }));
                    ctx.set_phase(PHASE_BUILD);
                    if let Err(p) = r {
                        return Err(Fail::new(format!("setup panicked: {}", panic_msg(&p))));
                    }
                    for i in 0..n {
                        let c = ctx.setup[i].load(SeqCst);
                        if c != k {
                            return Err(Fail::new(format!(
                                "after {} setup call(s) on the tree, setup reached leaf {} {} times",
                                k, i, c
                            )));
                        }
                    }
                }
                if n_setups > 1 {
                    st.class("trees_set_up_more_than_once");
                }
                let world = fresh_world();
                for i in 0..n {
                    ctx.jitter_begin[i].store((case.jitter.get(2 * i).cloned().unwrap_or(0) % 5) as u32, SeqCst);
                    ctx.jitter_run[i].store((case.jitter.get(2 * i + 1).cloned().unwrap_or(0) % 5) as u32, SeqCst);
                }
                let mut cons = vec![];
                seq_constraints(&case.tree, &mut 0, &mut cons);
                for rep in 0..case.repeats.max(1) {
                    ctx.reset_counters();
                    ctx.set_phase(PHASE_RUN);
                    let r = catch_unwind(AssertUnwindSafe(|| {
                        if case.inside_pool {
                            tp.install(|| ps.dispatch(&world))
                        } else if via_run_now {
                            shred::RunNow::run_now(&mut ps, &world)
                        } else {
                            ps.dispatch(&world)
                        }
                    }));
                    ctx.set_phase(PHASE_BUILD);
                    let log = ctx.take_log();
                    if let Err(p) = r {
                        return Err(Fail::new(format!(
                            "dispatch {} of a tree without conflicts under any par node panicked: {}",
                            rep,
                            panic_msg(&p)
                        )));
                    }
                    for i in 0..n {
                        let c = ctx.run[i].load(SeqCst);
                        if c != 1 {
                            return Err(Fail::new(format!(
                                "leaf {} ran {} times in one dispatch",
                                i, c
                            )));
                        }
                    }
                    let wins = windows(&flat, &log);
                    for (early, late) in &cons {
                        for &a in early {
                            for &c in late {
                                let (wa, wc) = (&wins[a][0], &wins[c][0]);
                                if !(wa.end < wc.begin) {
                                    return Err(Fail::new(format!(
                                        "leaf {} belongs to an earlier child of a seq node than leaf {} but had not finished (window [{}..{}]) when that one began (t={})",
                                        a, c, wa.begin, wa.end, wc.begin
                                    )));
                                }
                            }
                        }
                    }
                    check_all_free(&world)?;
                }
                let mut pn = vec![];
                par_nodes(&case.tree, &mut vec![], &mut pn);
                if !cons.is_empty() && !pn.is_empty() {
                    st.class("runnable_trees_with_par_and_seq");
                    st.nontrivial(case, || json!({"leaves": n, "seq_constraints": cons.len()}));
                }
                // leaf_ranges is used by the simplifier's sanity check only
                let _ = leaf_ranges(&case.tree, &mut 0);
            }
        }
        let _ = conflict_sets;
        Ok(())
    }
    fn simplify(&self, case: &C16Case) -> Vec<C16Case> {
        if case.plant.is_some() {
            return vec![];
        }
        fn cands(t: &Tree) -> Vec<Tree> {
            let mut out = vec![];
            match t {
                Tree::Leaf { reads, writes } => {
                    for i in 0..reads.len() {
                        let mut r = reads.clone();
                        r.remove(i);
                        out.push(Tree::Leaf {
                            reads: r,
                            writes: writes.clone(),
                        });
                    }
                    for i in 0..writes.len() {
                        let mut w = writes.clone();
                        w.remove(i);
                        out.push(Tree::Leaf {
                            reads: reads.clone(),
                            writes: w,
                        });
                    }
                }
                Tree::Par(c) | Tree::Seq(c) => {
                    let is_par = matches!(t, Tree::Par(_));
                    let mk = |v: Vec<Tree>| if is_par { Tree::Par(v) } else { Tree::Seq(v) };
                    for ch in c {
                        out.push(ch.clone());
                    }
                    if c.len() > 1 {
                        for i in 0..c.len() {
                            let mut v = c.clone();
                            v.remove(i);
                            out.push(mk(v));
                        }
                    }
                    for (i, ch) in c.iter().enumerate() {
                        for cc in cands(ch) {
                            let mut v = c.clone();
                            v[i] = cc;
                            out.push(mk(v));
                        }
                    }
                }
            }
            out
        }
        let mut out: Vec<C16Case> = cands(&case.tree)
            .into_iter()
            .map(|t| C16Case {
                tree: t,
                ..case.clone()
            })
            .collect();
        if case.repeats > 1 {
            out.push(C16Case {
                repeats: 1,
                ..case.clone()
            });
        }
        out
    }
}

// ------------------------------------------------------------------------------------------------
// statically typed trees whose leaves (and whole subtrees) are zero-sized

use shred::{System, Write as SWrite};
use std::sync::atomic::AtomicU64;
use std::sync::Mutex;

static ZCLOCK: AtomicU64 = AtomicU64::new(1);
/// (leaf, begin clock, end clock)
static ZLOG: Mutex<Vec<(usize, u64, u64)>> = Mutex::new(Vec::new());

/// unit-struct system number N: bumps `Slot<N>` and logs its window
pub struct Z<const N: usize>;

impl<'a, const N: usize> System<'a> for Z<N> {
    type SystemData = SWrite<'a, crate::res::Slot<N>>;
    fn run(&mut self, mut data: Self::SystemData) {
        let b = ZCLOCK.fetch_add(1, SeqCst);
        data.val += 1;
        for _ in 0..200 {
            std::hint::spin_loop();
        }
        drop(data);
        let e = ZCLOCK.fetch_add(1, SeqCst);
        ZLOG.lock().unwrap().push((N, b, e));
    }
}

/// unit-struct system with `()` system data: its only effect is a process-wide counter
pub struct ZU<const N: usize>;
static ZU_RUNS: [AtomicU64; 4] = [
    AtomicU64::new(0),
    AtomicU64::new(0),
    AtomicU64::new(0),
    AtomicU64::new(0),
];
impl<'a, const N: usize> System<'a> for ZU<N> {
    type SystemData = ();
    fn run(&mut self, _: ()) {
        let b = ZCLOCK.fetch_add(1, SeqCst);
        ZU_RUNS[N].fetch_add(1, SeqCst);
        let e = ZCLOCK.fetch_add(1, SeqCst);
        ZLOG.lock().unwrap().push((100 + N, b, e));
    }
}

fn run_static_unit<T>(tree: T, leaves: &[usize], seq_pairs: &[(usize, usize)], case: &C16StaticCase, lane: usize) -> Result<(), Fail>
where
    T: for<'a> RunWithPool<'a> + Send,
{
    let threads = case.threads.clamp(1, 16) as usize;
    let tp = pool(lane, threads);
    let mut ps = ParSeq::new(tree, tp.clone());
    let mut world = World::empty();
    ps.setup(&mut world);
    for rep in 1..=case.repeats.max(1) as u64 {
        ZLOG.lock().unwrap().clear();
        let before: Vec<u64> = leaves.iter().map(|l| ZU_RUNS[*l].load(SeqCst)).collect();
        let r = catch_unwind(AssertUnwindSafe(|| {
            if case.inside_pool {
                tp.install(|| ps.dispatch(&world))
            } else {
                ps.dispatch(&world)
            }
        }));
        if let Err(p) = r {
            return Err(Fail::new(format!("dispatch panicked: {}", panic_msg(&p))));
        }
        for (i, &l) in leaves.iter().enumerate() {
            let got = ZU_RUNS[l].load(SeqCst) - before[i];
            if got != 1 {
                return Err(Fail::new(format!(
                    "zero-sized leaf {} without system data ran {} times in dispatch {}",
                    l, got, rep
                )));
            }
        }
        let log = ZLOG.lock().unwrap().clone();
        for &(a, b) in seq_pairs {
            let wa = log.iter().find(|x| x.0 == 100 + a);
            let wb = log.iter().find(|x| x.0 == 100 + b);
            if let (Some(wa), Some(wb)) = (wa, wb) {
                if !(wa.2 < wb.1) {
                    return Err(Fail::new(format!(
                        "leaf {} (earlier child of a seq node) had not finished when leaf {} began",
                        a, b
                    )));
                }
            }
        }
    }
    Ok(())
}

#[derive(Clone, Debug, Serialize, Deserialize)]
pub struct C16StaticCase {
    pub shape: u8,
    pub threads: u8,
    pub inside_pool: bool,
    pub repeats: u8,
}

pub struct C16Static;

fn run_static<T>(
    tree: T,
    leaves: &[usize],
    seq_pairs: &[(usize, usize)],
    case: &C16StaticCase,
    lane: usize,
) -> Result<(), Fail>
where
    T: for<'a> RunWithPool<'a> + Send,
{
    let threads = case.threads.clamp(1, 16) as usize;
    let tp = pool(lane, threads);
    let mut ps = ParSeq::new(tree, tp.clone());
    let mut world = World::empty();
    ps.setup(&mut world);
    for &l in leaves {
        if res::peek(&world, Res::new(l, 0)).is_none() {
            return Err(Fail::new(format!("setup did not reach zero-sized leaf {}", l)));
        }
    }
    for rep in 1..=case.repeats.max(1) as u64 {
        ZLOG.lock().unwrap().clear();
        let r = catch_unwind(AssertUnwindSafe(|| {
            if case.inside_pool {
                tp.install(|| ps.dispatch(&world))
            } else {
                ps.dispatch(&world)
            }
        }));
        if let Err(p) = r {
            return Err(Fail::new(format!("dispatch panicked: {}", panic_msg(&p))));
        }
        let log = ZLOG.lock().unwrap().clone();
        for &l in leaves {
            let v = res::peek(&world, Res::new(l, 0)).unwrap_or(u64::MAX);
            if v != rep {
                return Err(Fail::new(format!(
                    "zero-sized leaf {} has run {} times after {} dispatches",
                    l, v, rep
                )));
            }
        }
        for &(a, b) in seq_pairs {
            let wa = log.iter().find(|x| x.0 == a);
            let wb = log.iter().find(|x| x.0 == b);
            if let (Some(wa), Some(wb)) = (wa, wb) {
                if !(wa.2 < wb.1) {
                    return Err(Fail::new(format!(
                        "leaf {} (earlier child of a seq node) had not finished when leaf {} began",
                        a, b
                    )));
                }
            }
        }
    }
    Ok(())
}

impl Prop for C16Static {
    type Case = C16StaticCase;
    fn name(&self) -> &'static str {
        "c16-static-zst"
    }
    fn property(&self) -> &'static str {
        "C16"
    }
    fn rule(&self) -> &'static str {
        "statically typed trees written with the real par! / seq! macros whose leaves are unit-struct (zero-sized) systems, so that whole subtrees are zero-sized types: 10 fixed shapes (flat par, flat seq, par of seqs, seq of pars, par of pars, three-deep mixes; two of them over leaves with `()` system data whose only effect is a process-wide counter) x pool size {1,2,3,4,8,16} x dispatch from outside / inside the pool x 1..3 dispatches; oracle: setup reaches every leaf, every leaf runs exactly once per dispatch, seq order holds; non-trivial = every case; distinct = case hash. Runs on one lane (the leaves log into a process-wide table)."
    }
    fn stream_len(&self) -> usize {
        8
    }
    fn gen(&self, src: &mut Src) -> C16StaticCase {
        C16StaticCase {
            shape: src.pick(10) as u8,
            threads: [1u8, 2, 3, 4, 8, 16][src.pick(6)],
            inside_pool: src.chance(6, 16),
            repeats: 1 + src.pick(3) as u8,
        }
    }
    fn check(&self, case: &C16StaticCase, lane: usize, st: &mut Stats) -> Result<(), Fail> {
        use shred::{par, seq};
        same_named_leaves()?;
        st.class(&format!("shape_{}", case.shape));
        let r = match case.shape % 10 {
            8 => run_static_unit(
                par![ZU::<0>, seq![ZU::<1>, ZU::<2>,], ZU::<3>,],
                &[0, 1, 2, 3],
                &[(1, 2)],
                case,
                lane,
            ),
            9 => run_static_unit(seq![ZU::<0>, par![ZU::<1>, ZU::<2>,],], &[0, 1, 2], &[(0, 1), (0, 2)], case, lane),
            0 => run_static(par![Z::<0>, Z::<1>, Z::<2>,], &[0, 1, 2], &[], case, lane),
            1 => run_static(seq![Z::<0>, Z::<1>, Z::<2>,], &[0, 1, 2], &[(0, 1), (1, 2), (0, 2)], case, lane),
            2 => run_static(
                par![seq![Z::<0>, Z::<1>,], seq![Z::<2>, Z::<3>,], Z::<4>,],
                &[0, 1, 2, 3, 4],
                &[(0, 1), (2, 3)],
                case,
                lane,
            ),
            3 => run_static(
                seq![par![Z::<0>, Z::<1>,], par![Z::<2>, Z::<3>,],],
                &[0, 1, 2, 3],
                &[(0, 2), (0, 3), (1, 2), (1, 3)],
                case,
                lane,
            ),
            4 => run_static(
                par![par![Z::<0>, Z::<1>,], par![Z::<2>, Z::<3>,],],
                &[0, 1, 2, 3],
                &[],
                case,
                lane,
            ),
            5 => run_static(
                par![Z::<0>, seq![Z::<1>, par![Z::<2>, Z::<3>,],], Z::<4>,],
                &[0, 1, 2, 3, 4],
                &[(1, 2), (1, 3)],
                case,
                lane,
            ),
            6 => run_static(
                seq![Z::<0>, par![Z::<1>, seq![Z::<2>, Z::<3>,],], Z::<4>,],
                &[0, 1, 2, 3, 4],
                &[(0, 1), (0, 2), (2, 3), (1, 4), (3, 4)],
                case,
                lane,
            ),
            _ => run_static(
                par![Z::<0>, Z::<1>, Z::<2>, Z::<3>, Z::<4>, Z::<5>, Z::<6>,],
                &[0, 1, 2, 3, 4, 5, 6],
                &[],
                case,
                lane,
            ),
        };
        r?;
        st.nontrivial(case, || json!({"shape": case.shape}));
        Ok(())
    }
}


/// Two leaf types that are both called `Leaf` (declared in sibling blocks, as macro-generated code
/// does) with different static system data: a node over them reports the union of what each of
/// them really declares, and a third same-named leaf that conflicts is rejected.
fn same_named_leaves() -> Result<(), Fail> {
    use crate::res::Slot;
    let a = {
        struct Leaf;
        impl<'a> System<'a> for Leaf {
            type SystemData = SWrite<'a, Slot<0>>;
            fn run(&mut self, _: Self::SystemData) {}
        }
        Leaf
    };
    let b = {
        struct Leaf;
        impl<'a> System<'a> for Leaf {
            type SystemData = SWrite<'a, Slot<1>>;
            fn run(&mut self, _: Self::SystemData) {}
        }
        Leaf
    };
    let c = {
        struct Leaf;
        impl<'a> System<'a> for Leaf {
            type SystemData = (SWrite<'a, Slot<2>>, SWrite<'a, Slot<1>>);
            fn run(&mut self, _: Self::SystemData) {}
        }
        Leaf
    };
    let node = catch_unwind(AssertUnwindSafe(|| Par::new(a).with(b))).map_err(|p| {
        Fail::new(format!(
            "Par::with panicked for two same-named leaf types that write different resources: {}",
            panic_msg(&p)
        ))
    })?;
    let (mut r, mut w) = (vec![], vec![]);
    node.reads(&mut r);
    node.writes(&mut w);
    let want: BTreeSet<ResourceId> = [ResourceId::new::<Slot<0>>(), ResourceId::new::<Slot<1>>()].into_iter().collect();
    let got: BTreeSet<ResourceId> = w.into_iter().collect();
    if !r.is_empty() || got != want {
        return Err(Fail::new(format!(
            "a par node over two leaf types that are both called `Leaf` (sibling blocks) reports {} reads and writes {:?}, the leaves declare no reads and the writes {:?}",
            r.len(),
            got,
            want
        )));
    }
    // (debug assertions are on in every build of the harness)
    let rejected = catch_unwind(AssertUnwindSafe(|| node.with(c))).is_err();
    if !rejected {
        return Err(Fail::new(
            "a third leaf type called `Leaf` that writes a resource a sibling writes was accepted by Par::with without a panic",
        ));
    }
    Ok(())
}
