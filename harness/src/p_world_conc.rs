//! C08, concurrent part: 2..8 threads issue fetches on one `&World`.
//!
//! Harness-side *shadow* state is updated strictly inside each guard's life, so a shadow window is
//! a subset of the real borrow window: an exclusive shadow overlapping any other shadow proves
//! aliasing. *Outer* windows (opened before the fetch call, closed after the drop) contain the real
//! windows: a panic is accepted only if a conflicting outer window was open at the start of the call
//! or opened while the call ran.

use std::panic::{catch_unwind, AssertUnwindSafe};
use std::sync::atomic::{AtomicI64, AtomicU64, Ordering::SeqCst};
use std::sync::{Arc, Barrier, Mutex};

use serde::{Deserialize, Serialize};
use serde_json::json;
use shred::{Fetch, FetchMut, ResourceId, World};

use crate::driver::{Fail, Prop, Stats};
use crate::plan::Src;

/// value with an invariant a writer breaks only while it holds the exclusive guard
#[derive(Default)]
pub struct Pair<const T: usize> {
    pub a: u64,
    pub b: u64,
}

const NT: usize = 4;
const ND: usize = 3;
const NCELL: usize = NT * ND;
const WRITER: i64 = 1 << 40;

#[derive(Clone, Debug, Serialize, Deserialize, PartialEq)]
pub enum COp {
    Acquire { cell: u8, excl: bool, slot: u8 },
    Release { slot: u8 },
    Spin { n: u8 },
}

#[derive(Clone, Debug, Serialize, Deserialize)]
pub struct ConcCase {
    pub present: Vec<u8>,
    pub threads: Vec<Vec<COp>>,
}

pub struct C08Conc;

fn rid(cell: usize) -> ResourceId {
    let (t, d) = (cell / ND, crate::res::dyn_id((cell % ND) as u8));
    match t {
        0 => ResourceId::new_with_dynamic_id::<Pair<0>>(d),
        1 => ResourceId::new_with_dynamic_id::<Pair<1>>(d),
        2 => ResourceId::new_with_dynamic_id::<Pair<2>>(d),
        _ => ResourceId::new_with_dynamic_id::<Pair<3>>(d),
    }
}

enum Guard<'a> {
    S0(Fetch<'a, Pair<0>>),
    S1(Fetch<'a, Pair<1>>),
    S2(Fetch<'a, Pair<2>>),
    S3(Fetch<'a, Pair<3>>),
    X0(FetchMut<'a, Pair<0>>),
    X1(FetchMut<'a, Pair<1>>),
    X2(FetchMut<'a, Pair<2>>),
    X3(FetchMut<'a, Pair<3>>),
}

impl Guard<'_> {
    fn read(&self) -> (u64, u64) {
        match self {
            Guard::S0(g) => (g.a, g.b),
            Guard::S1(g) => (g.a, g.b),
            Guard::S2(g) => (g.a, g.b),
            Guard::S3(g) => (g.a, g.b),
            Guard::X0(g) => (g.a, g.b),
            Guard::X1(g) => (g.a, g.b),
            Guard::X2(g) => (g.a, g.b),
            Guard::X3(g) => (g.a, g.b),
        }
    }
    /// breaks and restores the invariant non-atomically
    fn write(&mut self, v: u64) {
        macro_rules! w {
            ($g:expr) => {{
                $g.a = v;
                for _ in 0..50 {
                    std::hint::spin_loop();
                }
                $g.b = v.wrapping_mul(3).wrapping_add(1);
            }};
        }
        match self {
            Guard::X0(g) => w!(g),
            Guard::X1(g) => w!(g),
            Guard::X2(g) => w!(g),
            Guard::X3(g) => w!(g),
            _ => {}
        }
    }
}

/// VERIF_SELFTEST_ALIAS=1: the harness itself hands out a *shared* guard where an exclusive one was
/// asked for, i.e. it simulates a world whose exclusive borrows alias. Only used to show that the
/// shadow oracle notices aliasing (DESIGN.md 7.4); never set by any registered command.
fn selftest_alias() -> bool {
    static ON: std::sync::OnceLock<bool> = std::sync::OnceLock::new();
    *ON.get_or_init(|| std::env::var("VERIF_SELFTEST_ALIAS").is_ok())
}

fn fetch<'a>(world: &'a World, cell: usize, excl: bool) -> Option<Guard<'a>> {
    let id = rid(cell);
    let excl = excl && !selftest_alias();
    match (cell / ND, excl) {
        (0, false) => world.try_fetch_by_id::<Pair<0>>(id).map(Guard::S0),
        (1, false) => world.try_fetch_by_id::<Pair<1>>(id).map(Guard::S1),
        (2, false) => world.try_fetch_by_id::<Pair<2>>(id).map(Guard::S2),
        (_, false) => world.try_fetch_by_id::<Pair<3>>(id).map(Guard::S3),
        (0, true) => world.try_fetch_mut_by_id::<Pair<0>>(id).map(Guard::X0),
        (1, true) => world.try_fetch_mut_by_id::<Pair<1>>(id).map(Guard::X1),
        (2, true) => world.try_fetch_mut_by_id::<Pair<2>>(id).map(Guard::X2),
        (_, true) => world.try_fetch_mut_by_id::<Pair<3>>(id).map(Guard::X3),
    }
}

struct Shared {
    /// inside guard life: number of shared guards, WRITER bit for an exclusive one
    shadow: Vec<AtomicI64>,
    /// outer windows currently open
    outer_shared: Vec<AtomicI64>,
    outer_excl: Vec<AtomicI64>,
    /// bumped whenever an outer window opens
    epoch_shared: Vec<AtomicU64>,
    epoch_excl: Vec<AtomicU64>,
    violations: Mutex<Vec<String>>,
    stats: Mutex<(u64, u64, u64)>,
}

fn atoms_i(n: usize) -> Vec<AtomicI64> {
    (0..n).map(|_| AtomicI64::new(0)).collect()
}
fn atoms_u(n: usize) -> Vec<AtomicU64> {
    (0..n).map(|_| AtomicU64::new(0)).collect()
}

impl Prop for C08Conc {
    type Case = ConcCase;
    fn name(&self) -> &'static str {
        "c08-concurrent"
    }
    fn property(&self) -> &'static str {
        "C08"
    }
    fn rule(&self) -> &'static str {
        "2..8 real threads on one &World (4 resource types x 3 dynamic ids, each present or absent), each running its own generated history of try_fetch_by_id / try_fetch_mut_by_id / hold / write / drop with small delays; oracle: harness shadow counters updated strictly inside each guard's life never show an exclusive guard together with any other guard on the same cell; readers always see the writer's two-field invariant intact; None only for absent resources; a panic is accepted only if a conflicting guard's outer window (opened before its fetch call, closed after its drop) was open at the start of the panicking call or opened during it; at the end every cell is free; non-trivial = >= 1 justified panic and >= 1 successful exclusive fetch; distinct = case hash"
    }
    fn stream_len(&self) -> usize {
        400
    }
    fn max_shrink_iters(&self) -> u32 {
        200
    }
    fn journal(&self) -> bool {
        true
    }
    fn gen(&self, src: &mut Src) -> ConcCase {
        let mut present = vec![];
        for c in 0..NCELL as u8 {
            if src.chance(13, 16) {
                present.push(c);
            }
        }
        let nt = 2 + src.pick(7);
        // few hot cells so that threads really contend
        let hot = 1 + src.pick(4);
        let threads = (0..nt)
            .map(|_| {
                let n = src.pick(40);
                (0..n)
                    .map(|_| match src.pick(8) {
                        0 | 1 | 2 | 3 => COp::Acquire {
                            cell: if src.chance(13, 16) {
                                src.pick(hot) as u8
                            } else {
                                src.pick(NCELL) as u8
                            },
                            excl: src.chance(7, 16),
                            slot: src.pick(4) as u8,
                        },
                        4 | 5 | 6 => COp::Release {
                            slot: src.pick(4) as u8,
                        },
                        _ => COp::Spin {
                            n: src.pick(30) as u8,
                        },
                    })
                    .collect()
            })
            .collect();
        ConcCase { present, threads }
    }

    fn check(&self, case: &ConcCase, _lane: usize, st: &mut Stats) -> Result<(), Fail> {
        let mut world = World::empty();
        for &c in &case.present {
            let c = c as usize % NCELL;
            let id = rid(c);
            match c / ND {
                0 => world.insert_by_id(id, Pair::<0> { a: 0, b: 1 }),
                1 => world.insert_by_id(id, Pair::<1> { a: 0, b: 1 }),
                2 => world.insert_by_id(id, Pair::<2> { a: 0, b: 1 }),
                _ => world.insert_by_id(id, Pair::<3> { a: 0, b: 1 }),
            }
        }
        let present: Vec<bool> = (0..NCELL)
            .map(|c| case.present.iter().any(|p| *p as usize % NCELL == c))
            .collect();
        let sh = Arc::new(Shared {
            shadow: atoms_i(NCELL),
            outer_shared: atoms_i(NCELL),
            outer_excl: atoms_i(NCELL),
            epoch_shared: atoms_u(NCELL),
            epoch_excl: atoms_u(NCELL),
            violations: Mutex::new(vec![]),
            stats: Mutex::new((0, 0, 0)),
        });
        let nthreads = case.threads.len().clamp(1, 8);
        let barrier = Arc::new(Barrier::new(nthreads));
        let world_ref = &world;
        std::thread::scope(|scope| {
            for (ti, ops) in case.threads.iter().take(nthreads).enumerate() {
                let sh = sh.clone();
                let barrier = barrier.clone();
                let present = present.clone();
                scope.spawn(move || {
                    barrier.wait();
                    let mut held: Vec<Option<(usize, bool, Guard)>> = (0..4).map(|_| None).collect();
                    let (mut justified, mut excl_ok, mut shared_ok) = (0u64, 0u64, 0u64);
                    let release = |h: &mut Option<(usize, bool, Guard)>, sh: &Shared| {
                        if let Some((cell, excl, g)) = h.take() {
                            if excl {
                                sh.shadow[cell].fetch_and(!WRITER, SeqCst);
                            } else {
                                sh.shadow[cell].fetch_sub(1, SeqCst);
                            }
                            drop(g);
                            if excl {
                                sh.outer_excl[cell].fetch_sub(1, SeqCst);
                            } else {
                                sh.outer_shared[cell].fetch_sub(1, SeqCst);
                            }
                        }
                    };
                    for (k, op) in ops.iter().enumerate() {
                        match op {
                            COp::Spin { n } => {
                                for _ in 0..(*n as usize * 20) {
                                    std::hint::spin_loop();
                                }
                            }
                            COp::Release { slot } => {
                                release(&mut held[*slot as usize % 4], &sh);
                            }
                            COp::Acquire { cell, excl, slot } => {
                                let cell = *cell as usize % NCELL;
                                let s = *slot as usize % 4;
                                release(&mut held[s], &sh);
                                // what could justify a panic: conflicting outer windows open now or opening during the call
                                // order matters: an opener bumps `outer` first and `epoch` second, the
                                // checker reads `epoch` first and `outer` second, so a window that
                                // opens around these reads is seen by one of the two tests
                                let ep_excl0 = sh.epoch_excl[cell].load(SeqCst);
                                let ep_shared0 = sh.epoch_shared[cell].load(SeqCst);
                                let open_excl0 = sh.outer_excl[cell].load(SeqCst);
                                let open_shared0 = sh.outer_shared[cell].load(SeqCst);
                                // open my own outer window
                                if *excl {
                                    sh.outer_excl[cell].fetch_add(1, SeqCst);
                                    sh.epoch_excl[cell].fetch_add(1, SeqCst);
                                } else {
                                    sh.outer_shared[cell].fetch_add(1, SeqCst);
                                    sh.epoch_shared[cell].fetch_add(1, SeqCst);
                                }
                                let r = catch_unwind(AssertUnwindSafe(|| fetch(world_ref, cell, *excl)));
                                let close_outer = |sh: &Shared| {
                                    if *excl {
                                        sh.outer_excl[cell].fetch_sub(1, SeqCst);
                                    } else {
                                        sh.outer_shared[cell].fetch_sub(1, SeqCst);
                                    }
                                };
                                match r {
                                    Err(_) => {
                                        close_outer(&sh);
                                        let excl_seen = open_excl0 > 0 || sh.epoch_excl[cell].load(SeqCst) != ep_excl0 + if *excl { 1 } else { 0 };
                                        let shared_seen = open_shared0 > 0 || sh.epoch_shared[cell].load(SeqCst) != ep_shared0 + if *excl { 0 } else { 1 };
                                        let ok = if *excl { excl_seen || shared_seen } else { excl_seen };
                                        if !present[cell] {
                                            sh.violations.lock().unwrap().push(format!(
                                                "thread {} op {}: fetching the absent cell {} panicked instead of returning None", ti, k, cell));
                                        } else if !ok {
                                            sh.violations.lock().unwrap().push(format!(
                                                "thread {} op {}: {} fetch of cell {} panicked although no conflicting guard existed at any time during the call", ti, k, if *excl { "exclusive" } else { "shared" }, cell));
                                        } else {
                                            justified += 1;
                                        }
                                    }
                                    Ok(None) => {
                                        close_outer(&sh);
                                        if present[cell] {
                                            sh.violations.lock().unwrap().push(format!(
                                                "thread {} op {}: None for the present cell {} (None is only for absent resources)", ti, k, cell));
                                        }
                                    }
                                    Ok(Some(mut g)) => {
                                        if !present[cell] {
                                            sh.violations.lock().unwrap().push(format!(
                                                "thread {} op {}: a guard for the absent cell {}", ti, k, cell));
                                        }
                                        if *excl {
                                            let prev = sh.shadow[cell].fetch_or(WRITER, SeqCst);
                                            if prev != 0 {
                                                sh.violations.lock().unwrap().push(format!(
                                                    "thread {} op {}: exclusive guard on cell {} handed out while other guards are alive (shadow state {:#x})", ti, k, cell, prev));
                                            }
                                            g.write((ti as u64) << 32 | k as u64);
                                            excl_ok += 1;
                                        } else {
                                            let prev = sh.shadow[cell].fetch_add(1, SeqCst);
                                            if prev & WRITER != 0 {
                                                sh.violations.lock().unwrap().push(format!(
                                                    "thread {} op {}: shared guard on cell {} handed out while an exclusive guard is alive", ti, k, cell));
                                            }
                                            shared_ok += 1;
                                        }
                                        let (a, b) = g.read();
                                        if b != a.wrapping_mul(3).wrapping_add(1) {
                                            sh.violations.lock().unwrap().push(format!(
                                                "thread {} op {}: cell {} seen with a torn value ({}, {}): a writer is active while this guard is alive", ti, k, cell, a, b));
                                        }
                                        held[s] = Some((cell, *excl, g));
                                    }
                                }
                            }
                        }
                    }
                    for h in held.iter_mut() {
                        release(h, &sh);
                    }
                    let mut st = sh.stats.lock().unwrap();
                    st.0 += justified;
                    st.1 += excl_ok;
                    st.2 += shared_ok;
                });
            }
        });
        let v = sh.violations.lock().unwrap().clone();
        if let Some(first) = v.first() {
            return Err(Fail::new(format!("{} ({} violation(s) in this run)", first, v.len())));
        }
        for c in 0..NCELL {
            let s = crate::res::probe_id(&world, rid(c));
            if s == crate::res::Cell::Shared || s == crate::res::Cell::Excl {
                return Err(Fail::new(format!(
                    "cell {} is still borrowed after every thread dropped its guards",
                    c
                )));
            }
        }
        let (j, x, s) = *sh.stats.lock().unwrap();
        st.class_n("justified_panics", j);
        st.class_n("exclusive_guards", x);
        st.class_n("shared_guards", s);
        st.class(&format!("threads_{}", nthreads));
        if j > 0 && x > 0 {
            st.nontrivial(case, || json!({"justified_panics": j, "exclusive": x, "shared": s}));
        }
        Ok(())
    }
    fn simplify(&self, case: &ConcCase) -> Vec<ConcCase> {
        let mut out = vec![];
        if case.threads.len() > 2 {
            for i in 0..case.threads.len() {
                let mut c = case.clone();
                c.threads.remove(i);
                out.push(c);
            }
        }
        for (i, t) in case.threads.iter().enumerate() {
            if t.len() > 1 {
                let mut c = case.clone();
                c.threads[i].truncate(t.len() / 2);
                out.push(c);
            }
        }
        out
    }
}
