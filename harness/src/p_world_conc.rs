//! C08, concurrent part: 2..8 threads issue fetches on one `&World`.
//!
//! Harness-side *shadow* state is updated strictly inside each guard's life, so a shadow window is
//! a subset of the real borrow window: an exclusive shadow overlapping any other shadow proves
//! aliasing. *Outer* windows (opened before the fetch call, closed after the drop) contain the real
//! windows: a panic is accepted only if a conflicting outer window was open at the start of the call
//! or opened while the call ran.

use std::panic::{catch_unwind, AssertUnwindSafe};
use std::sync::atomic::{AtomicI64, AtomicU64, Ordering::SeqCst};
use std::sync::{Arc, Barrier, Mutex};

use serde::{Deserialize, Serialize};
use serde_json::json;
use shred::{Fetch, FetchMut, ResourceId, World};

use crate::driver::{Fail, Prop, Stats};
use crate::plan::Src;

/// value with an invariant a writer breaks only while it holds the exclusive guard
#[derive(Default)]
pub struct Pair<const T: usize> {
    pub a: u64,
    pub b: u64,
}

const NT: usize = 4;
const ND: usize = 3;
const NCELL: usize = NT * ND;
const WRITER: i64 = 1 << 40;

#[derive(Clone, Debug, Serialize, Deserialize, PartialEq)]
pub enum COp {
    Acquire {
        cell: u8,
        excl: bool,
        slot: u8,
        /// use the typed form (try_fetch / try_fetch_mut) when the cell has dynamic id 0
        #[serde(default)]
        typed: bool,
    },
    Release { slot: u8 },
    Spin { n: u8 },
}

#[derive(Clone, Debug, Serialize, Deserialize)]
pub struct ConcCase {
    pub present: Vec<u8>,
    pub threads: Vec<Vec<COp>>,
    /// every thread runs its history this many times (0 and 1: once)
    #[serde(default)]
    pub reps: u16,
}

pub struct C08Conc;

fn rid(cell: usize) -> ResourceId {
    let (t, d) = (cell / ND, crate::res::dyn_id((cell % ND) as u8));
    match t {
        0 => ResourceId::new_with_dynamic_id::<Pair<0>>(d),
        1 => ResourceId::new_with_dynamic_id::<Pair<1>>(d),
        2 => ResourceId::new_with_dynamic_id::<Pair<2>>(d),
        _ => ResourceId::new_with_dynamic_id::<Pair<3>>(d),
    }
}

enum Guard<'a> {
    S0(Fetch<'a, Pair<0>>),
    S1(Fetch<'a, Pair<1>>),
    S2(Fetch<'a, Pair<2>>),
    S3(Fetch<'a, Pair<3>>),
    X0(FetchMut<'a, Pair<0>>),
    X1(FetchMut<'a, Pair<1>>),
    X2(FetchMut<'a, Pair<2>>),
    X3(FetchMut<'a, Pair<3>>),
}

impl Guard<'_> {
    fn read(&self) -> (u64, u64) {
        match self {
            Guard::S0(g) => (g.a, g.b),
            Guard::S1(g) => (g.a, g.b),
            Guard::S2(g) => (g.a, g.b),
            Guard::S3(g) => (g.a, g.b),
            Guard::X0(g) => (g.a, g.b),
            Guard::X1(g) => (g.a, g.b),
            Guard::X2(g) => (g.a, g.b),
            Guard::X3(g) => (g.a, g.b),
        }
    }
    /// breaks and restores the invariant non-atomically
    fn write(&mut self, v: u64) {
        macro_rules! w {
            ($g:expr) => {{
                $g.a = v;
                for _ in 0..50 {
                    std::hint::spin_loop();
                }
                $g.b = v.wrapping_mul(3).wrapping_add(1);
            }};
        }
        match self {
            Guard::X0(g) => w!(g),
            Guard::X1(g) => w!(g),
            Guard::X2(g) => w!(g),
            Guard::X3(g) => w!(g),
            _ => {}
        }
    }
}

/// VERIF_SELFTEST_ALIAS=1: the harness itself hands out a *shared* guard where an exclusive one was
/// asked for, i.e. it simulates a world whose exclusive borrows alias. Only used to show that the
/// shadow oracle notices aliasing (DESIGN.md 7.4); never set by any registered command.
fn selftest_alias() -> bool {
    static ON: std::sync::OnceLock<bool> = std::sync::OnceLock::new();
    *ON.get_or_init(|| std::env::var("VERIF_SELFTEST_ALIAS").is_ok())
}

fn fetch<'a>(world: &'a World, cell: usize, excl: bool, typed: bool) -> Option<Guard<'a>> {
    let id = rid(cell);
    let excl = excl && !selftest_alias();
    if typed && cell % ND == 0 {
        return match (cell / ND, excl) {
            (0, false) => world.try_fetch::<Pair<0>>().map(Guard::S0),
            (1, false) => world.try_fetch::<Pair<1>>().map(Guard::S1),
            (2, false) => world.try_fetch::<Pair<2>>().map(Guard::S2),
            (_, false) => world.try_fetch::<Pair<3>>().map(Guard::S3),
            (0, true) => world.try_fetch_mut::<Pair<0>>().map(Guard::X0),
            (1, true) => world.try_fetch_mut::<Pair<1>>().map(Guard::X1),
            (2, true) => world.try_fetch_mut::<Pair<2>>().map(Guard::X2),
            (_, true) => world.try_fetch_mut::<Pair<3>>().map(Guard::X3),
        };
    }
    match (cell / ND, excl) {
        (0, false) => world.try_fetch_by_id::<Pair<0>>(id).map(Guard::S0),
        (1, false) => world.try_fetch_by_id::<Pair<1>>(id).map(Guard::S1),
        (2, false) => world.try_fetch_by_id::<Pair<2>>(id).map(Guard::S2),
        (_, false) => world.try_fetch_by_id::<Pair<3>>(id).map(Guard::S3),
        (0, true) => world.try_fetch_mut_by_id::<Pair<0>>(id).map(Guard::X0),
        (1, true) => world.try_fetch_mut_by_id::<Pair<1>>(id).map(Guard::X1),
        (2, true) => world.try_fetch_mut_by_id::<Pair<2>>(id).map(Guard::X2),
        (_, true) => world.try_fetch_mut_by_id::<Pair<3>>(id).map(Guard::X3),
    }
}

struct Shared {
    /// inside guard life: number of shared guards, WRITER bit for an exclusive one
    shadow: Vec<AtomicI64>,
    /// logical clock: every attempt is stamped before the call and after it returned, every guard
    /// after its drop returned
    clock: AtomicU64,
    violations: Mutex<Vec<String>>,
    stats: Mutex<(u64, u64, u64)>,
    /// (thread, op, cell, exclusive, stamp before the call, stamp after the call / after the drop,
    /// got a guard)
    log: Mutex<Vec<Attempt>>,
}

#[derive(Clone, Copy)]
struct Attempt {
    thread: usize,
    op: usize,
    cell: usize,
    excl: bool,
    begin: u64,
    /// failed attempt: after the call returned; guard: after its drop returned
    end: u64,
    ok: bool,
}

fn atoms_i(n: usize) -> Vec<AtomicI64> {
    (0..n).map(|_| AtomicI64::new(0)).collect()
}
fn atoms_u(n: usize) -> Vec<AtomicU64> {
    (0..n).map(|_| AtomicU64::new(0)).collect()
}

impl Prop for C08Conc {
    type Case = ConcCase;
    fn name(&self) -> &'static str {
        "c08-concurrent"
    }
    fn property(&self) -> &'static str {
        "C08"
    }
    fn rule(&self) -> &'static str {
        "2..8 real threads on one &World (4 resource types x 3 dynamic ids, each present or absent), each running its own generated history (repeated 1..64 times) of try_fetch(_mut)_by_id and, on dynamic id 0, the typed try_fetch(_mut) / hold / write / drop with small delays; oracle: harness shadow counters updated strictly inside each guard's life never show an exclusive guard together with any other guard on the same cell; readers always see the writer's two-field invariant intact; None only for absent resources; a panic is accepted only if a conflicting guard that was really handed out has an outer window (stamp before its fetch call .. stamp after its drop, on one logical clock) that overlaps the panicking call's window - failed attempts justify nothing; at the end every cell is free; non-trivial = >= 1 justified panic and >= 1 successful exclusive fetch; distinct = case hash"
    }
    fn stream_len(&self) -> usize {
        400
    }
    fn max_shrink_iters(&self) -> u32 {
        200
    }
    fn journal(&self) -> bool {
        true
    }
    fn gen(&self, src: &mut Src) -> ConcCase {
        let mut present = vec![];
        for c in 0..NCELL as u8 {
            if src.chance(13, 16) {
                present.push(c);
            }
        }
        let nt = 2 + src.pick(7);
        // one case in four hammers a single present cell through the typed calls without pauses
        let hammer = src.chance(4, 16);
        let hammer_cell = (src.pick(NT) * ND) as u8;
        if hammer && !present.contains(&hammer_cell) {
            present.push(hammer_cell);
        }
        // few hot cells so that threads really contend
        let hot = 1 + src.pick(4);
        let threads = (0..nt)
            .map(|_| {
                let n = if hammer { 4 + src.pick(12) } else { src.pick(40) };
                (0..n)
                    .map(|_| {
                        if hammer {
                            return if src.chance(10, 16) {
                                COp::Acquire {
                                    cell: hammer_cell,
                                    excl: src.chance(8, 16),
                                    slot: src.pick(2) as u8,
                                    typed: true,
                                }
                            } else {
                                COp::Release {
                                    slot: src.pick(2) as u8,
                                }
                            };
                        }
                        match src.pick(8) {
                            0 | 1 | 2 | 3 => COp::Acquire {
                                cell: if src.chance(13, 16) {
                                    src.pick(hot) as u8
                                } else {
                                    src.pick(NCELL) as u8
                                },
                                excl: src.chance(7, 16),
                                slot: src.pick(4) as u8,
                                typed: src.chance(8, 16),
                            },
                            4 | 5 | 6 => COp::Release {
                                slot: src.pick(4) as u8,
                            },
                            _ => COp::Spin {
                                n: src.pick(30) as u8,
                            },
                        }
                    })
                    .collect()
            })
            .collect();
        let reps = if hammer {
            100
        } else {
            [1u16, 1, 1, 4, 16, 64][src.pick(6)]
        };
        ConcCase {
            present,
            threads,
            reps,
        }
    }

    fn check(&self, case: &ConcCase, _lane: usize, st: &mut Stats) -> Result<(), Fail> {
        let mut world = World::empty();
        for &c in &case.present {
            let c = c as usize % NCELL;
            let id = rid(c);
            match c / ND {
                0 => world.insert_by_id(id, Pair::<0> { a: 0, b: 1 }),
                1 => world.insert_by_id(id, Pair::<1> { a: 0, b: 1 }),
                2 => world.insert_by_id(id, Pair::<2> { a: 0, b: 1 }),
                _ => world.insert_by_id(id, Pair::<3> { a: 0, b: 1 }),
            }
        }
        let present: Vec<bool> = (0..NCELL)
            .map(|c| case.present.iter().any(|p| *p as usize % NCELL == c))
            .collect();
        let sh = Arc::new(Shared {
            shadow: atoms_i(NCELL),
            clock: AtomicU64::new(1),
            violations: Mutex::new(vec![]),
            stats: Mutex::new((0, 0, 0)),
            log: Mutex::new(vec![]),
        });
        let nthreads = case.threads.len().clamp(1, 8);
        let reps = case.reps.clamp(1, 400) as usize;
        let barrier = Arc::new(Barrier::new(nthreads));
        let world_ref = &world;
        std::thread::scope(|scope| {
            for (ti, ops) in case.threads.iter().take(nthreads).enumerate() {
                let sh = sh.clone();
                let barrier = barrier.clone();
                let present = present.clone();
                scope.spawn(move || {
                    barrier.wait();
                    // slot -> (cell, exclusive, guard, index of its log entry)
                    let mut held: Vec<Option<(usize, bool, Guard, usize)>> = (0..4).map(|_| None).collect();
                    let mut log: Vec<Attempt> = vec![];
                    let (mut excl_ok, mut shared_ok) = (0u64, 0u64);
                    let release = |h: &mut Option<(usize, bool, Guard, usize)>, sh: &Shared, log: &mut Vec<Attempt>| {
                        if let Some((cell, excl, g, li)) = h.take() {
                            if excl {
                                sh.shadow[cell].fetch_and(!WRITER, SeqCst);
                            } else {
                                sh.shadow[cell].fetch_sub(1, SeqCst);
                            }
                            drop(g);
                            log[li].end = sh.clock.fetch_add(1, SeqCst);
                        }
                    };
                    for rep in 0..reps {
                    for (k0, op) in ops.iter().enumerate() {
                        let k = rep * ops.len() + k0;
                        match op {
                            COp::Spin { n } => {
                                for _ in 0..(*n as usize * 20) {
                                    std::hint::spin_loop();
                                }
                            }
                            COp::Release { slot } => {
                                release(&mut held[*slot as usize % 4], &sh, &mut log);
                            }
                            COp::Acquire { cell, excl, slot, typed } => {
                                let cell = *cell as usize % NCELL;
                                let s = *slot as usize % 4;
                                release(&mut held[s], &sh, &mut log);
                                let begin = sh.clock.fetch_add(1, SeqCst);
                                let r = catch_unwind(AssertUnwindSafe(|| fetch(world_ref, cell, *excl, *typed)));
                                match r {
                                    Err(_) => {
                                        let end = sh.clock.fetch_add(1, SeqCst);
                                        if !present[cell] {
                                            sh.violations.lock().unwrap().push(format!(
                                                "thread {} op {}: fetching the absent cell {} panicked instead of returning None", ti, k, cell));
                                        }
                                        log.push(Attempt { thread: ti, op: k, cell, excl: *excl, begin, end, ok: false });
                                    }
                                    Ok(None) => {
                                        if present[cell] {
                                            sh.violations.lock().unwrap().push(format!(
                                                "thread {} op {}: None for the present cell {} (None is only for absent resources)", ti, k, cell));
                                        }
                                    }
                                    Ok(Some(mut g)) => {
                                        if !present[cell] {
                                            sh.violations.lock().unwrap().push(format!(
                                                "thread {} op {}: a guard for the absent cell {}", ti, k, cell));
                                        }
                                        if *excl {
                                            let prev = sh.shadow[cell].fetch_or(WRITER, SeqCst);
                                            if prev != 0 {
                                                sh.violations.lock().unwrap().push(format!(
                                                    "thread {} op {}: exclusive guard on cell {} handed out while other guards are alive (shadow state {:#x})", ti, k, cell, prev));
                                            }
                                            g.write((ti as u64) << 32 | k as u64);
                                            excl_ok += 1;
                                        } else {
                                            let prev = sh.shadow[cell].fetch_add(1, SeqCst);
                                            if prev & WRITER != 0 {
                                                sh.violations.lock().unwrap().push(format!(
                                                    "thread {} op {}: shared guard on cell {} handed out while an exclusive guard is alive", ti, k, cell));
                                            }
                                            shared_ok += 1;
                                        }
                                        let (a, b) = g.read();
                                        if b != a.wrapping_mul(3).wrapping_add(1) {
                                            sh.violations.lock().unwrap().push(format!(
                                                "thread {} op {}: cell {} seen with a torn value ({}, {}): a writer is active while this guard is alive", ti, k, cell, a, b));
                                        }
                                        log.push(Attempt { thread: ti, op: k, cell, excl: *excl, begin, end: u64::MAX, ok: true });
                                        held[s] = Some((cell, *excl, g, log.len() - 1));
                                    }
                                }
                            }
                        }
                    }
                    }
                    for h in held.iter_mut() {
                        release(h, &sh, &mut log);
                    }
                    let mut st = sh.stats.lock().unwrap();
                    st.1 += excl_ok;
                    st.2 += shared_ok;
                    sh.log.lock().unwrap().extend(log);
                });
            }
        });
        // a panic needs a reason: a conflicting guard (somebody really got it) whose outer window
        // [stamp before its fetch call, stamp after its drop] overlaps the failed call's window. A
        // failed attempt holds nothing and justifies nothing.
        {
            let log = sh.log.lock().unwrap();
            let mut by_cell: Vec<Vec<&Attempt>> = (0..NCELL).map(|_| vec![]).collect();
            for a in log.iter().filter(|a| a.ok) {
                by_cell[a.cell].push(a);
            }
            let mut justified = 0u64;
            for f in log.iter().filter(|a| !a.ok) {
                if !present[f.cell] {
                    continue;
                }
                let ok = by_cell[f.cell].iter().any(|g| {
                    (g.excl || f.excl) && !(g.thread == f.thread && g.op == f.op) && g.begin < f.end && g.end > f.begin
                });
                if ok {
                    justified += 1;
                } else {
                    sh.violations.lock().unwrap().push(format!(
                        "thread {} op {}: {} fetch of cell {} panicked although nobody held a conflicting guard at any time during the call (only guards that were really handed out count; a failed attempt holds nothing)",
                        f.thread, f.op, if f.excl { "exclusive" } else { "shared" }, f.cell));
                }
            }
            sh.stats.lock().unwrap().0 += justified;
        }
        let v = sh.violations.lock().unwrap().clone();
        if let Some(first) = v.first() {
            return Err(Fail::new(format!("{} ({} violation(s) in this run)", first, v.len())));
        }
        for c in 0..NCELL {
            let s = crate::res::probe_id(&world, rid(c));
            if s == crate::res::Cell::Shared || s == crate::res::Cell::Excl {
                return Err(Fail::new(format!(
                    "cell {} is still borrowed after every thread dropped its guards",
                    c
                )));
            }
        }
        let (j, x, s) = *sh.stats.lock().unwrap();
        st.class_n("justified_panics", j);
        st.class_n("exclusive_guards", x);
        st.class_n("shared_guards", s);
        st.class(&format!("threads_{}", nthreads));
        if reps >= 100 {
            st.class("hammer_cases_one_cell_typed_calls_100_repetitions");
        }
        if j > 0 && x > 0 {
            st.nontrivial(case, || json!({"justified_panics": j, "exclusive": x, "shared": s}));
        }
        Ok(())
    }
    fn simplify(&self, case: &ConcCase) -> Vec<ConcCase> {
        let mut out = vec![];
        if case.threads.len() > 2 {
            for i in 0..case.threads.len() {
                let mut c = case.clone();
                c.threads.remove(i);
                out.push(c);
            }
        }
        for (i, t) in case.threads.iter().enumerate() {
            if t.len() > 1 {
                let mut c = case.clone();
                c.threads[i].truncate(t.len() / 2);
                out.push(c);
            }
        }
        out
    }
}
