//! vnopar <plans.jsonl> <out.jsonl> [repeats]
//! Built with `--no-default-features`: the harness against shred WITHOUT its `parallel` feature.
fn main() {
    std::panic::set_hook(Box::new(|_| {}));
    let a: Vec<String> = std::env::args().collect();
    if a.len() < 3 {
        eprintln!("usage: vnopar <plans.jsonl> <out.jsonl> [repeats]");
        std::process::exit(2);
    }
    let repeats = a.get(3).and_then(|s| s.parse().ok()).unwrap_or(2);
    match vcheck::nopar::run_file(&a[1], &a[2], repeats) {
        Ok(n) => println!("vnopar: {} plans, parallel feature: {}", n, cfg!(feature = "par")),
        Err(e) => {
            eprintln!("vnopar: {}", e);
            std::process::exit(2);
        }
    }
}
