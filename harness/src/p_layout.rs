//! Layout-level sub-checks: generated plan -> real builder -> real executed layout -> validity
//! predicate. One `LayoutProp` per (property, generator class).

use serde_json::json;

use crate::build::{build_plan, pool, BuildOpts, Built};
use crate::driver::{Fail, Prop, Stats};
use crate::oracles;
use crate::plan::{gen_plan, simplify_plan, GenCfg, Plan, Src};

pub type Oracle = fn(&Plan, &Built, &mut Stats) -> Result<bool, Fail>;

pub struct LayoutProp {
    pub property: &'static str,
    pub name: &'static str,
    pub rule: &'static str,
    pub cfg: GenCfg,
    pub stream_len: usize,
    /// returns Ok(nontrivial?)
    pub oracle: Oracle,
    pub capture_debug: bool,
}

pub fn classify(b: &Built, st: &mut Stats) {
    let flat = &b.flat;
    let l0 = &b.layouts.by_bid[&0];
    st.class_n("systems", flat.sys.len() as u64);
    st.class_n("stages", l0.stages.len() as u64);
    if l0.width() >= 2 {
        st.class("plans_width>=2");
    }
    if l0.width() >= 4 {
        st.class("plans_width>=4");
    }
    if l0.width() >= 7 {
        st.class("plans_width>=7_more_groups_than_the_inline_capacity");
    }
    if flat.sys.iter().any(|s| {
        let mut d = s.deps.clone();
        d.sort();
        d.dedup();
        d.len() >= 5
    }) {
        st.class("plans_with_more_than_4_distinct_dependencies");
    }
    let groups2: usize = b
        .layouts
        .by_bid
        .values()
        .map(|l| l.stages.iter().flatten().filter(|g| g.len() >= 2).count())
        .sum();
    if groups2 > 0 {
        st.class("plans_with_group>=2");
    }
    let groups4: usize = b
        .layouts
        .by_bid
        .values()
        .map(|l| l.stages.iter().flatten().filter(|g| g.len() >= 4).count())
        .sum();
    if groups4 > 0 {
        st.class("plans_with_full_group");
    }
    let mut pairs = 0u64;
    for bi in &flat.builders {
        for (i, a) in bi.members.iter().enumerate() {
            for c in &bi.members[i + 1..] {
                if flat.conflict(*a, *c) {
                    pairs += 1;
                }
            }
        }
    }
    st.class_n("conflicting_pairs", pairs);
    if pairs > 0 {
        st.class("plans_with_conflict");
    }
    let edges: usize = flat.sys.iter().map(|s| s.deps.len()).sum();
    st.class_n("dependency_edges", edges as u64);
    if edges > 0 {
        st.class("plans_with_deps");
    }
    if flat.sys.iter().any(|s| s.dup_deps) {
        st.class("plans_with_dup_deps");
    }
    if flat
        .sys
        .iter()
        .any(|s| s.deps.iter().any(|d| flat.sys[*d].seg < s.seg))
    {
        st.class("plans_with_dep_across_barrier");
    }
    if flat.builders.iter().any(|b| b.n_effective_barriers > 0) {
        st.class("plans_with_effective_barrier");
    }
    if flat
        .builders
        .iter()
        .any(|b| b.n_barrier_ops > b.n_effective_barriers)
    {
        st.class("plans_with_noop_barrier");
    }
    match flat.max_depth() {
        0 => {}
        1 => st.class("plans_depth1"),
        2 => st.class("plans_depth2"),
        _ => st.class("plans_depth>=3"),
    }
    if flat.sys.iter().any(|s| s.is_tl) {
        st.class("plans_with_thread_local");
    }
    if flat.sys.iter().any(|s| s.is_tl && s.parent.is_some()) {
        st.class("plans_with_thread_local_in_batch");
    }
    if flat.sys.iter().any(|s| !s.is_tl && s.name.is_empty()) {
        st.class("plans_with_unnamed");
    }
    if flat
        .sys
        .iter()
        .any(|s| matches!(s.kind, crate::plan::Kind::Static(_)))
    {
        st.class("plans_with_static_system");
    }
}

impl Prop for LayoutProp {
    type Case = Plan;
    fn name(&self) -> &'static str {
        self.name
    }
    fn property(&self) -> &'static str {
        self.property
    }
    fn rule(&self) -> &'static str {
        self.rule
    }
    fn stream_len(&self) -> usize {
        self.stream_len
    }
    fn gen(&self, src: &mut Src) -> Plan {
        gen_plan(src, &self.cfg)
    }
    fn check(&self, plan: &Plan, lane: usize, st: &mut Stats) -> Result<(), Fail> {
        // the print function is called for about one plan in 64 (it is the same formatter; stdout
        // is silenced around the call)
        let call_print = self.capture_debug && {
            use std::hash::{Hash, Hasher};
            let mut h = std::collections::hash_map::DefaultHasher::new();
            plan.hash(&mut h);
            h.finish() % 64 == 0
        };
        if call_print {
            st.class("print_par_seq_called");
        }
        let opts = BuildOpts {
            capture_debug: self.capture_debug,
            call_print,
            ..BuildOpts::default()
        };
        let built = build_plan(plan, pool(lane, 1), &opts)
            .map_err(|e| Fail::keyed("build-or-identify", e))?;
        classify(&built, st);
        let nontrivial = (self.oracle)(plan, &built, st)?;
        if nontrivial {
            st.nontrivial(plan, || oracles::describe(&built.flat, &built.layouts));
        }
        Ok(())
    }
    fn simplify(&self, case: &Plan) -> Vec<Plan> {
        simplify_plan(case)
    }
    // plans of hundreds or thousands of ops: every candidate costs a full build
    fn max_shrink_iters(&self) -> u32 {
        if self.stream_len > 3000 {
            60
        } else {
            1500
        }
    }
    fn minimise_budget(&self) -> usize {
        if self.stream_len > 3000 {
            150
        } else {
            3000
        }
    }
}

// ---- oracles ------------------------------------------------------------------------------------

pub fn o_c10(_p: &Plan, b: &Built, st: &mut Stats) -> Result<bool, Fail> {
    oracles::check_complete(&b.flat, &b.layouts)?;
    let mut info = oracles::NeedlessInfo::default();
    oracles::check_needless(&b.flat, &b.layouts, &mut info)?;
    // reported maximum thread count == widest stage of the executed shape
    let (shape, _) = b.d.verif_shape();
    let widest = shape.iter().map(|s| s.len()).max().unwrap_or(0);
    let mt = b.d.max_threads();
    if mt != widest {
        return Err(Fail::new(format!(
            "max_threads() reports {} but the widest executed stage has {} groups",
            mt, widest
        )));
    }
    if info.skipped_systems > 0 {
        st.class("plans_with_skipped_stage");
    }
    if info.compatible_segments > 0 {
        st.class("plans_with_compatible_segment>=3");
    }
    Ok(info.skipped_systems > 0 || info.compatible_segments > 0)
}

pub fn o_c01(_p: &Plan, b: &Built, _st: &mut Stats) -> Result<bool, Fail> {
    oracles::check_complete(&b.flat, &b.layouts)?;
    oracles::check_isolation(&b.flat, &b.layouts)?;
    let wide = b
        .layouts
        .by_bid
        .values()
        .any(|l| l.stages.iter().any(|s| s.len() >= 2));
    let mut conflict = false;
    for bi in &b.flat.builders {
        for (i, a) in bi.members.iter().enumerate() {
            for c in &bi.members[i + 1..] {
                conflict |= b.flat.conflict(*a, *c);
            }
        }
    }
    Ok(wide && conflict)
}

pub fn o_c02(_p: &Plan, b: &Built, _st: &mut Stats) -> Result<bool, Fail> {
    oracles::check_complete(&b.flat, &b.layouts)?;
    oracles::check_deps(&b.flat, &b.layouts)?;
    let nt = b
        .flat
        .sys
        .iter()
        .any(|s| s.deps.iter().any(|d| !b.flat.conflict(s.idx, *d)));
    Ok(nt)
}

pub fn o_c03(_p: &Plan, b: &Built, _st: &mut Stats) -> Result<bool, Fail> {
    oracles::check_complete(&b.flat, &b.layouts)?;
    oracles::check_barriers(&b.flat, &b.layouts)?;
    // non-trivial: an effective barrier with systems on both sides that are unrelated
    let mut nt = false;
    for bi in &b.flat.builders {
        for &x in &bi.members {
            for &y in &bi.members {
                let (sx, sy) = (&b.flat.sys[x], &b.flat.sys[y]);
                if sx.seg < sy.seg && !b.flat.conflict(x, y) && !b.flat.deps_star(y).contains(&x) {
                    nt = true;
                }
            }
        }
    }
    Ok(nt)
}

pub fn o_c04(_p: &Plan, b: &Built, _st: &mut Stats) -> Result<bool, Fail> {
    oracles::check_complete(&b.flat, &b.layouts)?;
    let l0 = &b.layouts.by_bid[&0];
    let big_group = b
        .layouts
        .by_bid
        .values()
        .any(|l| l.stages.iter().flatten().any(|g| g.len() >= 3));
    Ok(big_group || l0.stages.len() >= 8)
}

/// an outer system conflicts with a batch only through something inside it / only through the
/// controller's declaration
pub fn c07_interesting(b: &Built) -> (bool, bool) {
    use crate::plan::conflict_sets;
    let f = &b.flat;
    let mut via_inner = false;
    let mut via_ctl = false;
    for bt in f.sys.iter().filter(|s| s.is_batch) {
        for &x in &f.builders[bt.bid].members {
            if x == bt.idx || !f.conflict(x, bt.idx) {
                continue;
            }
            let xs = &f.sys[x];
            let with_ctl = conflict_sets(&xs.acc_r, &xs.acc_w, &bt.own_r, &bt.own_w);
            if with_ctl {
                // does it conflict through the controller only?
                let inner_conf = f
                    .descendants(bt.idx)
                    .iter()
                    .any(|d| !f.sys[*d].is_tl && f.conflict(x, *d));
                if !inner_conf {
                    via_ctl = true;
                }
            } else {
                via_inner = true;
            }
        }
    }
    (via_inner, via_ctl)
}

pub fn o_c07(_p: &Plan, b: &Built, st: &mut Stats) -> Result<bool, Fail> {
    oracles::check_complete(&b.flat, &b.layouts)?;
    oracles::check_isolation(&b.flat, &b.layouts)?;
    oracles::check_deps(&b.flat, &b.layouts)?;
    oracles::check_barriers(&b.flat, &b.layouts)?;
    let mut info = oracles::NeedlessInfo::default();
    oracles::check_needless(&b.flat, &b.layouts, &mut info)?;
    let (via_inner, via_ctl) = c07_interesting(b);
    if via_inner {
        st.class("outer_conflicts_only_through_inner_system");
    }
    if via_ctl {
        st.class("outer_conflicts_only_through_controller_data");
    }
    let deep = b.flat.sys.iter().any(|s| {
        s.is_batch
            && b.flat.builders[s.bid].members.iter().any(|x| {
                *x != s.idx
                    && b.flat
                        .descendants(s.idx)
                        .iter()
                        .any(|d| b.flat.ancestors(*d).len() >= 3 && b.flat.conflict(*x, *d))
            })
    });
    if deep {
        st.class("outer_conflicts_with_depth3_inner_system");
    }
    Ok(via_inner || via_ctl)
}

pub fn sample_extra(b: &Built) -> serde_json::Value {
    json!(oracles::describe(&b.flat, &b.layouts))
}
