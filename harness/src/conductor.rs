//! The harness owns the schedule: a tracker derives from the recovered real layout which
//! fetch/release events are *enabled*, and gates inside the harness systems let a decision vector
//! choose the order in which they happen.

use std::collections::{BTreeMap, BTreeSet};
use std::sync::{Arc, Condvar, Mutex};
use std::time::{Duration, Instant};

use crate::plan::{Ctl, Flat};

#[derive(Clone, Debug, Default, PartialEq, Eq, serde::Serialize, serde::Deserialize)]
pub struct Layout {
    pub stages: Vec<Vec<Vec<usize>>>,
    pub tl: Vec<usize>,
}

#[derive(Clone, Debug, Default, PartialEq, Eq, serde::Serialize, serde::Deserialize)]
pub struct LayoutSet {
    /// builder id -> layout
    pub by_bid: BTreeMap<usize, Layout>,
}

impl Layout {
    pub fn position(&self, sys: usize) -> Option<(usize, usize, usize)> {
        for (s, st) in self.stages.iter().enumerate() {
            for (g, gr) in st.iter().enumerate() {
                for (p, x) in gr.iter().enumerate() {
                    if *x == sys {
                        return Some((s, g, p));
                    }
                }
            }
        }
        None
    }
    pub fn shape(&self) -> Vec<Vec<usize>> {
        self.stages
            .iter()
            .map(|s| s.iter().map(|g| g.len()).collect())
            .collect()
    }
    pub fn width(&self) -> usize {
        self.stages.iter().map(|s| s.len()).max().unwrap_or(0)
    }
    pub fn n_systems(&self) -> usize {
        self.stages
            .iter()
            .map(|s| s.iter().map(|g| g.len()).sum::<usize>())
            .sum()
    }
}

/// (system index, phase) with phase 0 = begin (before any borrow), 1 = end (before release)
pub type Ev = (usize, u8);

// ------------------------------------------------------------------------------------------------
// tracker: which events does the documented discipline allow next?

struct DispRun {
    bid: usize,
    stage: usize,
    groups: Vec<GroupRun>,
    with_tl: bool,
    tl_cur: usize,
    tl_started: bool,
}

struct GroupRun {
    members: Vec<usize>,
    cur: usize,
    state: SysState,
}

enum SysState {
    NotStarted,
    Running,
    /// batch: k-th inner dispatch in progress
    InBatch {
        k: usize,
        n: usize,
        inner: Option<Box<DispRun>>,
    },
}

pub struct Tracker {
    flat: Arc<Flat>,
    layouts: Arc<LayoutSet>,
    root: DispRun,
}

impl DispRun {
    fn new(layouts: &LayoutSet, bid: usize, with_tl: bool) -> DispRun {
        let mut d = DispRun {
            bid,
            stage: 0,
            groups: vec![],
            with_tl,
            tl_cur: 0,
            tl_started: false,
        };
        d.load_stage(layouts);
        d
    }

    fn load_stage(&mut self, layouts: &LayoutSet) {
        let l = &layouts.by_bid[&self.bid];
        self.groups = match l.stages.get(self.stage) {
            Some(st) => st
                .iter()
                .map(|g| GroupRun {
                    members: g.clone(),
                    cur: 0,
                    state: SysState::NotStarted,
                })
                .collect(),
            None => vec![],
        };
    }

    fn done(&self, layouts: &LayoutSet) -> bool {
        let l = &layouts.by_bid[&self.bid];
        self.stage >= l.stages.len() && (!self.with_tl || self.tl_cur >= l.tl.len())
    }

    fn enabled(&self, layouts: &LayoutSet, out: &mut Vec<Ev>) {
        let l = &layouts.by_bid[&self.bid];
        if self.stage < l.stages.len() {
            for g in &self.groups {
                if g.cur >= g.members.len() {
                    continue;
                }
                let s = g.members[g.cur];
                match &g.state {
                    SysState::NotStarted => out.push((s, 0)),
                    SysState::Running => out.push((s, 1)),
                    SysState::InBatch { inner, .. } => match inner {
                        Some(d) => d.enabled(layouts, out),
                        None => out.push((s, 1)),
                    },
                }
            }
        } else if self.with_tl && self.tl_cur < l.tl.len() {
            let s = l.tl[self.tl_cur];
            out.push((s, if self.tl_started { 1 } else { 0 }));
        }
    }

    fn apply(&mut self, flat: &Flat, layouts: &LayoutSet, ev: Ev) -> bool {
        let n_stages = layouts.by_bid[&self.bid].stages.len();
        if self.stage < n_stages {
            let mut hit = false;
            for g in self.groups.iter_mut() {
                if g.cur >= g.members.len() {
                    continue;
                }
                let s = g.members[g.cur];
                match &mut g.state {
                    SysState::NotStarted => {
                        if ev == (s, 0) {
                            hit = true;
                            let info = &flat.sys[s];
                            if info.is_batch {
                                let n = match info.ctl {
                                    Some(Ctl::Custom { n }) => n as usize,
                                    Some(Ctl::Multi { planned }) => planned as usize,
                                    None => 0,
                                };
                                let mut st = SysState::InBatch {
                                    k: 0,
                                    n,
                                    inner: None,
                                };
                                start_inner(&mut st, flat, layouts, s);
                                g.state = st;
                            } else {
                                g.state = SysState::Running;
                            }
                        }
                    }
                    SysState::Running => {
                        if ev == (s, 1) {
                            hit = true;
                            g.cur += 1;
                            g.state = SysState::NotStarted;
                        }
                    }
                    SysState::InBatch { inner, .. } => {
                        let finished_batch = match inner {
                            None => {
                                if ev == (s, 1) {
                                    hit = true;
                                    true
                                } else {
                                    false
                                }
                            }
                            Some(d) => {
                                if d.apply(flat, layouts, ev) {
                                    hit = true;
                                    if d.done(layouts) {
                                        if let SysState::InBatch { k, .. } = &mut g.state {
                                            *k += 1;
                                        }
                                        start_inner(&mut g.state, flat, layouts, s);
                                    }
                                }
                                false
                            }
                        };
                        if finished_batch {
                            g.cur += 1;
                            g.state = SysState::NotStarted;
                        }
                    }
                }
                if hit {
                    break;
                }
            }
            if hit && self.groups.iter().all(|g| g.cur >= g.members.len()) {
                self.stage += 1;
                self.load_stage(layouts);
            }
            hit
        } else if self.with_tl {
            let l = &layouts.by_bid[&self.bid];
            if self.tl_cur < l.tl.len() {
                let s = l.tl[self.tl_cur];
                if !self.tl_started && ev == (s, 0) {
                    self.tl_started = true;
                    return true;
                }
                if self.tl_started && ev == (s, 1) {
                    self.tl_started = false;
                    self.tl_cur += 1;
                    return true;
                }
            }
            false
        } else {
            false
        }
    }
}

fn start_inner(st: &mut SysState, flat: &Flat, layouts: &LayoutSet, s: usize) {
    if let SysState::InBatch { k, n, inner } = st {
        *inner = None;
        let ib = flat.sys[s].inner_bid.expect("batch without inner builder");
        while *k < *n {
            let d = DispRun::new(layouts, ib, true);
            if d.done(layouts) {
                // an empty inner dispatcher produces no events
                *k += 1;
                continue;
            }
            *inner = Some(Box::new(d));
            break;
        }
    }
}

impl Tracker {
    pub fn new(flat: Arc<Flat>, layouts: Arc<LayoutSet>, with_tl: bool) -> Tracker {
        let root = DispRun::new(&layouts, 0, with_tl);
        Tracker {
            flat,
            layouts,
            root,
        }
    }
    pub fn enabled(&self) -> Vec<Ev> {
        let mut out = vec![];
        self.root.enabled(&self.layouts, &mut out);
        out.sort();
        out
    }
    pub fn apply(&mut self, ev: Ev) -> bool {
        let (flat, layouts) = (self.flat.clone(), self.layouts.clone());
        self.root.apply(&flat, &layouts, ev)
    }
    pub fn done(&self) -> bool {
        self.root.done(&self.layouts)
    }
}

// ------------------------------------------------------------------------------------------------
// conductor

#[derive(Clone, Debug, PartialEq, Eq)]
pub enum Strategy {
    /// decision vector picks uniformly among enabled events
    Mapped(Vec<u16>),
    /// exact indices into the sorted enabled set (for the DFS); missing entries = 0
    Exact(Vec<usize>),
    /// always prefer a "begin" event (decision vector breaks ties): maximal overlap
    MaxOverlap(Vec<u16>),
    /// events of the listed systems go first (`first`) or only when nothing else is enabled
    Prefer { sys: Vec<usize>, first: bool, begins_first: bool },
}

#[derive(Default, Clone, Debug)]
pub struct CondReport {
    pub granted: usize,
    pub abandoned: bool,
    pub deviated: bool,
    pub fallback_grants: usize,
    /// (chosen index, number of enabled events) per decision
    pub trace: Vec<(usize, usize)>,
    pub completed: bool,
}

struct CState {
    active: bool,
    free: bool,
    tracker: Option<Tracker>,
    arrived: BTreeSet<Ev>,
    granted: BTreeSet<Ev>,
    strategy: Strategy,
    dpos: usize,
    pending: Option<(Ev, Instant)>,
    deadline: Instant,
    grace: Duration,
    report: CondReport,
    lane: usize,
    epoch0: u64,
}

pub struct Conductor {
    m: Mutex<CState>,
    cv: Condvar,
}

pub enum GateResult {
    /// conductor not active for this event: caller logs by itself
    Pass,
    /// granted in schedule order
    Granted,
}

impl Conductor {
    pub fn new() -> Conductor {
        Conductor {
            m: Mutex::new(CState {
                active: false,
                free: true,
                tracker: None,
                arrived: BTreeSet::new(),
                granted: BTreeSet::new(),
                strategy: Strategy::Mapped(vec![]),
                dpos: 0,
                pending: None,
                deadline: Instant::now(),
                grace: Duration::from_millis(30),
                report: CondReport::default(),
                lane: 0,
                epoch0: 0,
            }),
            cv: Condvar::new(),
        }
    }

    pub fn arm(&self, tracker: Tracker, strategy: Strategy, deadline: Duration) {
        let mut st = self.m.lock().unwrap();
        st.lane = crate::hsys::lane_of_current_thread().unwrap_or(63);
        st.epoch0 = crate::hsys::PANIC_EPOCH[st.lane].load(std::sync::atomic::Ordering::SeqCst);
        st.active = true;
        st.free = false;
        st.tracker = Some(tracker);
        st.arrived.clear();
        st.granted.clear();
        st.strategy = strategy;
        st.dpos = 0;
        st.pending = None;
        st.deadline = Instant::now() + deadline;
        st.grace = Duration::from_millis(30);
        st.report = CondReport::default();
    }

    pub fn disarm(&self) -> CondReport {
        let mut st = self.m.lock().unwrap();
        st.active = false;
        st.free = true;
        let mut rep = st.report.clone();
        rep.completed = st.tracker.as_ref().map(|t| t.done()).unwrap_or(false);
        st.tracker = None;
        self.cv.notify_all();
        rep
    }

    /// open all gates (used when a dispatch panicked or the case is abandoned)
    pub fn release_all(&self) {
        let mut st = self.m.lock().unwrap();
        st.free = true;
        self.cv.notify_all();
    }

    fn choose(st: &mut CState, enabled: &[Ev]) -> usize {
        let n = enabled.len();
        let k = match &st.strategy {
            Strategy::Mapped(v) => {
                let x = v.get(st.dpos).cloned().unwrap_or(0) as usize;
                (x * n) >> 16
            }
            Strategy::Exact(v) => v.get(st.dpos).cloned().unwrap_or(0).min(n - 1),
            Strategy::MaxOverlap(v) => {
                let begins: Vec<usize> = (0..n).filter(|i| enabled[*i].1 == 0).collect();
                let x = v.get(st.dpos).cloned().unwrap_or(0) as usize;
                if !begins.is_empty() {
                    begins[(x * begins.len()) >> 16]
                } else {
                    (x * n) >> 16
                }
            }
            Strategy::Prefer {
                sys,
                first,
                begins_first,
            } => {
                let mine: Vec<usize> = (0..n).filter(|i| sys.contains(&enabled[*i].0)).collect();
                let other: Vec<usize> = (0..n).filter(|i| !sys.contains(&enabled[*i].0)).collect();
                let pool = if *first {
                    if !mine.is_empty() {
                        mine
                    } else {
                        other
                    }
                } else if !other.is_empty() {
                    other
                } else {
                    mine
                };
                if *begins_first {
                    pool.iter()
                        .cloned()
                        .find(|i| enabled[*i].1 == 0)
                        .unwrap_or(pool[0])
                } else {
                    pool[0]
                }
            }
        };
        st.dpos += 1;
        st.report.trace.push((k, n));
        k
    }

    /// returns true if something was granted
    fn advance(&self, st: &mut CState) -> bool {
        let mut any = false;
        loop {
            if st.free || st.tracker.is_none() {
                return any;
            }
            if st.pending.is_none() {
                let enabled = st.tracker.as_ref().unwrap().enabled();
                if enabled.is_empty() {
                    return any;
                }
                let k = Self::choose(st, &enabled);
                st.pending = Some((enabled[k], Instant::now()));
            }
            let (c, since) = st.pending.unwrap();
            if st.arrived.remove(&c) {
                st.granted.insert(c);
                st.tracker.as_mut().unwrap().apply(c);
                st.pending = None;
                st.report.granted += 1;
                any = true;
                continue;
            }
            if since.elapsed() > st.grace {
                // the chosen event cannot arrive right now (rayon ran something else on top of
                // the thread that would produce it): grant the smallest arrived enabled event
                let enabled = st.tracker.as_ref().unwrap().enabled();
                if let Some(c2) = st.arrived.iter().cloned().find(|e| enabled.contains(e)) {
                    st.arrived.remove(&c2);
                    st.granted.insert(c2);
                    st.tracker.as_mut().unwrap().apply(c2);
                    st.report.granted += 1;
                    st.report.fallback_grants += 1;
                    // the implementation does not offer the concurrency the layout promises (or
                    // rayon stacked jobs): from here on do not wait long for chosen events
                    st.grace = Duration::from_micros(500);
                    // keep `pending`: it is still enabled and still wanted next
                    st.pending = Some((c, Instant::now()));
                    any = true;
                    continue;
                }
            }
            return any;
        }
    }

    /// Blocks until the schedule lets `ev` happen. `on_grant` runs under the conductor lock at the
    /// moment of the grant (used to log the event so that log order = grant order).
    pub fn gate(&self, ev: Ev, on_grant: &mut dyn FnMut()) -> GateResult {
        let mut st = self.m.lock().unwrap();
        if !st.active || st.free {
            on_grant();
            return GateResult::Pass;
        }
        let enabled = st.tracker.as_ref().unwrap().enabled();
        if !enabled.contains(&ev) {
            // the implementation left the documented discipline: never block, just record
            st.report.deviated = true;
            st.free = true;
            self.cv.notify_all();
            on_grant();
            return GateResult::Pass;
        }
        st.arrived.insert(ev);
        loop {
            if self.advance(&mut st) {
                self.cv.notify_all();
            }
            if st.granted.remove(&ev) {
                on_grant();
                return GateResult::Granted;
            }
            if st.free {
                on_grant();
                return GateResult::Pass;
            }
            let panicked = crate::hsys::PANIC_EPOCH[st.lane]
                .load(std::sync::atomic::Ordering::SeqCst)
                != st.epoch0;
            if panicked || Instant::now() > st.deadline {
                st.report.abandoned = true;
                st.free = true;
                self.cv.notify_all();
                on_grant();
                return GateResult::Pass;
            }
            let (g, _) = self
                .cv
                .wait_timeout(st, Duration::from_millis(3))
                .unwrap();
            st = g;
        }
    }
}
