//! Registration-sequence model ("plan"), its compiled flat form, the choice-stream generator
//! and the structural simplifier used after proptest's own shrinking.

use std::collections::BTreeSet;

use serde::{Deserialize, Serialize};

use crate::res::{Res, ND, ND_CLASSIC, NT};

#[derive(Clone, Debug, Serialize, Deserialize, PartialEq, Eq, Hash)]
pub enum Kind {
    Dyn,
    Static(u8),
}

#[derive(Clone, Debug, Serialize, Deserialize, PartialEq, Eq, Hash)]
pub enum Ctl {
    Custom { n: u8 },
    Multi { planned: u32 },
}

impl Ctl {
    pub fn times(&self) -> usize {
        match self {
            Ctl::Custom { n } => *n as usize,
            Ctl::Multi { planned } => *planned as usize,
        }
    }
}

#[derive(Clone, Debug, Serialize, Deserialize, PartialEq, Eq, Hash)]
pub enum Op {
    Sys {
        name: String,
        /// indices (into the same builder's op list) of earlier *named* Sys/Batch ops
        deps: Vec<usize>,
        reads: Vec<Res>,
        writes: Vec<Res>,
        rt: u8,
        kind: Kind,
        /// dependency names passed verbatim in addition to `deps` (C18 plants unknown names here)
        #[serde(default)]
        extra_deps: Vec<String>,
    },
    Barrier,
    Batch {
        name: String,
        deps: Vec<usize>,
        /// static data family index of the controller's declared data
        decl: u8,
        ctl: Ctl,
        rt: u8,
        inner: Vec<Op>,
        #[serde(default)]
        extra_deps: Vec<String>,
    },
    Tl {
        reads: Vec<Res>,
        writes: Vec<Res>,
    },
    /// a registration attempt that reuses the name of the earlier op `dup_of`: it is rejected by a
    /// panic, the caller catches it and goes on using the builder (C20)
    Rejected {
        dup_of: usize,
        /// instead of reusing a name: a fresh name with a dependency on a system that was never
        /// registered (rejected by a panic too)
        #[serde(default)]
        unknown_dep: bool,
    },
}

pub type Plan = Vec<Op>;

/// Number of static data families (see fam.rs). Kept here so the generator does not depend on fam.
pub const NFAM: usize = 15;

/// Model-side knowledge of what each static family accesses (written down independently of shred's
/// `reads()` / `writes()`; C06 checks the latter).
pub fn family_access(k: u8) -> (Vec<Res>, Vec<Res>) {
    let r = |t: usize| Res::new(t, 0);
    match k {
        0 => (vec![], vec![]),
        1 => (vec![r(0)], vec![]),
        2 => (vec![], vec![r(1)]),
        3 => (vec![r(0)], vec![r(2)]),
        4 => (vec![r(1), r(4)], vec![r(3)]),
        5 => (vec![r(5)], vec![]),
        6 => (vec![r(0)], vec![r(6)]),
        7 => (vec![r(2)], vec![r(7)]),
        8 => (vec![r(3)], vec![]),
        9 => (vec![r(5)], vec![r(4)]),
        10 => (vec![r(6), r(7)], vec![r(0)]),
        11 => (vec![r(1), r(1)], vec![]),
        12 => (vec![r(5)], vec![r(6)]),
        // the same-named twins (see `with_fam!`): data of family 1 and of family 2
        13 => (vec![r(0)], vec![]),
        14 => (vec![], vec![r(1)]),
        _ => panic!("harness: family index out of range"),
    }
}

/// resources a family reaches through a default-providing accessor (created by `setup` if absent);
/// `Option<..>` and `ReadExpect`/`WriteExpect` members create nothing
pub fn family_provides(k: u8) -> Vec<Res> {
    let r = |t: usize| Res::new(t, 0);
    match k {
        0 => vec![],
        1 => vec![r(0)],
        2 => vec![r(1)],
        3 => vec![r(0), r(2)],
        4 => vec![r(3), r(1), r(4)],
        5 => vec![],
        6 => vec![r(0)],
        7 => vec![r(2), r(7)],
        8 => vec![],
        9 => vec![r(5)],
        10 => vec![r(6), r(0), r(7)],
        11 => vec![r(1)],
        12 => vec![r(5), r(6)],
        13 => vec![r(0)],
        14 => vec![r(1)],
        _ => panic!("harness: family index out of range"),
    }
}

/// number of members of the family that use the counting custom handler
pub fn family_handler_calls(k: u8) -> u64 {
    if k == 12 {
        2
    } else {
        0
    }
}

// ------------------------------------------------------------------------------------------------
// compiled form

#[derive(Clone, Debug)]
pub struct SysInfo {
    pub idx: usize,
    pub path: Vec<usize>,
    pub bid: usize,
    pub parent: Option<usize>,
    /// registration position among ordinary (non thread-local) systems of its builder
    pub pos: usize,
    /// registration position among thread-local systems of its builder
    pub tl_pos: usize,
    pub is_tl: bool,
    pub is_batch: bool,
    pub name: String,
    pub deps: Vec<usize>,
    pub dup_deps: bool,
    pub own_r: BTreeSet<Res>,
    pub own_w: BTreeSet<Res>,
    pub acc_r: BTreeSet<Res>,
    pub acc_w: BTreeSet<Res>,
    pub rt: u8,
    /// number of effective barriers registered before this system in its builder
    pub seg: usize,
    pub ctl: Option<Ctl>,
    pub kind: Kind,
    pub decl: u8,
    pub inner_bid: Option<usize>,
}

impl SysInfo {
    pub fn sid(&self) -> String {
        self.path
            .iter()
            .map(|p| p.to_string())
            .collect::<Vec<_>>()
            .join("/")
    }
}

#[derive(Clone, Debug, Default)]
pub struct BuilderInfo {
    pub bid: usize,
    pub owner: Option<usize>,
    pub depth: usize,
    pub members: Vec<usize>,
    pub tls: Vec<usize>,
    pub n_barrier_ops: usize,
    pub n_effective_barriers: usize,
    /// op index -> system index (None for barriers)
    pub op_sys: Vec<Option<usize>>,
}

#[derive(Clone, Debug, Default)]
pub struct Flat {
    pub sys: Vec<SysInfo>,
    pub builders: Vec<BuilderInfo>,
}

pub fn conflict_sets(
    ar: &BTreeSet<Res>,
    aw: &BTreeSet<Res>,
    br: &BTreeSet<Res>,
    bw: &BTreeSet<Res>,
) -> bool {
    aw.iter().any(|x| br.contains(x) || bw.contains(x)) || ar.iter().any(|x| bw.contains(x))
}

impl Flat {
    pub fn conflict(&self, a: usize, b: usize) -> bool {
        let (a, b) = (&self.sys[a], &self.sys[b]);
        conflict_sets(&a.acc_r, &a.acc_w, &b.acc_r, &b.acc_w)
    }

    /// transitive dependencies within a builder
    pub fn deps_star(&self, x: usize) -> BTreeSet<usize> {
        let mut out = BTreeSet::new();
        let mut stack = self.sys[x].deps.clone();
        while let Some(d) = stack.pop() {
            if out.insert(d) {
                stack.extend(self.sys[d].deps.iter().cloned());
            }
        }
        out
    }

    /// all systems contained (at any depth) in batch `b`
    pub fn descendants(&self, b: usize) -> Vec<usize> {
        let mut out = vec![];
        if let Some(ib) = self.sys[b].inner_bid {
            let bi = &self.builders[ib];
            for &m in bi.members.iter().chain(bi.tls.iter()) {
                out.push(m);
                out.extend(self.descendants(m));
            }
        }
        out
    }

    pub fn ancestors(&self, x: usize) -> Vec<usize> {
        let mut out = vec![];
        let mut cur = self.sys[x].parent;
        while let Some(p) = cur {
            out.push(p);
            cur = self.sys[p].parent;
        }
        out
    }

    pub fn max_depth(&self) -> usize {
        self.builders.iter().map(|b| b.depth).max().unwrap_or(0)
    }
}

pub fn compile(plan: &Plan) -> Flat {
    let mut flat = Flat::default();
    compile_builder(plan, &mut flat, None, 0, &[]);
    flat
}

fn compile_builder(
    ops: &[Op],
    flat: &mut Flat,
    owner: Option<usize>,
    depth: usize,
    prefix: &[usize],
) -> usize {
    let bid = flat.builders.len();
    flat.builders.push(BuilderInfo {
        bid,
        owner,
        depth,
        ..Default::default()
    });
    let mut op_to_sys: Vec<Option<usize>> = vec![None; ops.len()];
    let mut seg = 0usize;
    let mut since_barrier = false;
    let mut pos = 0usize;
    let mut tl_pos = 0usize;
    for (i, op) in ops.iter().enumerate() {
        let mut path = prefix.to_vec();
        path.push(i);
        match op {
            Op::Rejected { .. } => {}
            Op::Barrier => {
                flat.builders[bid].n_barrier_ops += 1;
                if since_barrier {
                    seg += 1;
                    since_barrier = false;
                    flat.builders[bid].n_effective_barriers += 1;
                }
            }
            Op::Tl { reads, writes } => {
                let idx = flat.sys.len();
                let r: BTreeSet<Res> = reads.iter().cloned().collect();
                let w: BTreeSet<Res> = writes.iter().cloned().collect();
                flat.sys.push(SysInfo {
                    idx,
                    path,
                    bid,
                    parent: owner,
                    pos: 0,
                    tl_pos,
                    is_tl: true,
                    is_batch: false,
                    name: String::new(),
                    deps: vec![],
                    dup_deps: false,
                    own_r: r.clone(),
                    own_w: w.clone(),
                    acc_r: r,
                    acc_w: w,
                    rt: 3,
                    seg,
                    ctl: None,
                    kind: Kind::Dyn,
                    decl: 0,
                    inner_bid: None,
                });
                tl_pos += 1;
                flat.builders[bid].tls.push(idx);
                op_to_sys[i] = Some(idx);
            }
            Op::Sys {
                name,
                deps,
                reads,
                writes,
                rt,
                kind,
                ..
            } => {
                let idx = flat.sys.len();
                let (reads, writes) = match kind {
                    Kind::Dyn => (reads.clone(), writes.clone()),
                    Kind::Static(k) => family_access(*k),
                };
                let r: BTreeSet<Res> = reads.iter().cloned().collect();
                let w: BTreeSet<Res> = writes.iter().cloned().collect();
                let gdeps: Vec<usize> = deps.iter().filter_map(|d| op_to_sys[*d]).collect();
                let mut dd = gdeps.clone();
                dd.sort();
                dd.dedup();
                flat.sys.push(SysInfo {
                    idx,
                    path,
                    bid,
                    parent: owner,
                    pos,
                    tl_pos: 0,
                    is_tl: false,
                    is_batch: false,
                    name: name.clone(),
                    dup_deps: dd.len() != gdeps.len(),
                    deps: gdeps,
                    own_r: r.clone(),
                    own_w: w.clone(),
                    acc_r: r,
                    acc_w: w,
                    rt: *rt,
                    seg,
                    ctl: None,
                    kind: kind.clone(),
                    decl: 0,
                    inner_bid: None,
                });
                pos += 1;
                since_barrier = true;
                flat.builders[bid].members.push(idx);
                op_to_sys[i] = Some(idx);
            }
            Op::Batch {
                name,
                deps,
                decl,
                ctl,
                rt,
                inner,
                ..
            } => {
                let idx = flat.sys.len();
                let (reads, writes) = family_access(*decl);
                let r: BTreeSet<Res> = reads.iter().cloned().collect();
                let w: BTreeSet<Res> = writes.iter().cloned().collect();
                let gdeps: Vec<usize> = deps.iter().filter_map(|d| op_to_sys[*d]).collect();
                let mut dd = gdeps.clone();
                dd.sort();
                dd.dedup();
                flat.sys.push(SysInfo {
                    idx,
                    path: path.clone(),
                    bid,
                    parent: owner,
                    pos,
                    tl_pos: 0,
                    is_tl: false,
                    is_batch: true,
                    name: name.clone(),
                    dup_deps: dd.len() != gdeps.len(),
                    deps: gdeps,
                    own_r: r.clone(),
                    own_w: w.clone(),
                    acc_r: r,
                    acc_w: w,
                    rt: *rt,
                    seg,
                    ctl: Some(ctl.clone()),
                    kind: Kind::Dyn,
                    decl: *decl,
                    inner_bid: None,
                });
                pos += 1;
                since_barrier = true;
                flat.builders[bid].members.push(idx);
                op_to_sys[i] = Some(idx);
                let ib = compile_builder(inner, flat, Some(idx), depth + 1, &path);
                flat.sys[idx].inner_bid = Some(ib);
                // union of everything inside (ordinary systems only: a thread-local system exposes no
                // access through `RunNow`, see KF2)
                let members = flat.builders[ib].members.clone();
                for m in members {
                    let (mr, mw) = (flat.sys[m].acc_r.clone(), flat.sys[m].acc_w.clone());
                    flat.sys[idx].acc_r.extend(mr);
                    flat.sys[idx].acc_w.extend(mw);
                }
            }
        }
    }
    flat.builders[bid].op_sys = op_to_sys;
    bid
}

// ------------------------------------------------------------------------------------------------
// choice stream

pub struct Src<'a> {
    data: &'a [u16],
    pos: usize,
}

impl<'a> Src<'a> {
    pub fn new(data: &'a [u16]) -> Self {
        Src { data, pos: 0 }
    }
    pub fn raw(&mut self) -> u16 {
        let v = self.data.get(self.pos).cloned().unwrap_or(0);
        self.pos += 1;
        v
    }
    /// monotone map onto 0..n (0 when exhausted)
    pub fn pick(&mut self, n: usize) -> usize {
        if n <= 1 {
            return 0;
        }
        ((self.raw() as usize) * n) >> 16
    }
    /// true with probability num/den; an exhausted / zero stream says false
    pub fn chance(&mut self, num: usize, den: usize) -> bool {
        if num == 0 {
            return false;
        }
        self.pick(den) + num >= den
    }
    pub fn exhausted(&self) -> bool {
        self.pos >= self.data.len()
    }
    pub fn used(&self) -> usize {
        self.pos
    }
}

#[derive(Clone, Debug)]
pub struct GenCfg {
    pub max_ops: usize,
    pub max_inner_ops: usize,
    pub universe_max: usize,
    pub max_reads: usize,
    pub max_writes: usize,
    /// probabilities in 1/16
    pub p_barrier: usize,
    pub p_batch: usize,
    pub p_tl: usize,
    pub p_dep: usize,
    pub p_static: usize,
    pub p_unnamed: usize,
    pub p_odd_name: usize,
    pub max_deps: usize,
    pub dup_deps: bool,
    pub max_depth: usize,
    pub allow_multi: bool,
    pub tl_in_batch: bool,
    pub max_n: usize,
    pub batch_decl: bool,
    /// thread-local systems inside batches declare resources (false: they access nothing)
    pub tl_in_batch_access: bool,
    /// probability (in 1/16) of a rejected duplicate-name registration attempt
    pub p_rejected: usize,
    /// probability (in 1/16) that a dynamic system writes anything at all
    pub write_chance: usize,
    /// draw the universe from all 96 resources (8 types x 12 dynamic ids) instead of the classic 32
    pub extended_universe: bool,
    /// probability (in 1/16) that a plan draws its running-time hints from a skewed distribution
    /// (mostly VeryShort, now and then VeryLong): groups then fill up to their capacity
    pub rt_skew: usize,
    /// probability (in 1/16) that a system repeats the dependency list of the last system that had
    /// one, entry for entry
    pub p_copy_deps: usize,
    /// probability (in 1/16) that no system of a plan (at any depth) gets a name
    pub p_all_unnamed: usize,
}

thread_local! {
    static RT_SKEW: std::cell::Cell<bool> = const { std::cell::Cell::new(false) };
    static ALL_UNNAMED: std::cell::Cell<bool> = const { std::cell::Cell::new(false) };
}

fn gen_rt(src: &mut Src) -> u8 {
    if RT_SKEW.with(|s| s.get()) {
        [1u8, 1, 1, 5, 1, 2, 1, 5][src.pick(8)]
    } else {
        1 + src.pick(5) as u8
    }
}

impl Default for GenCfg {
    fn default() -> Self {
        GenCfg {
            max_ops: 24,
            max_inner_ops: 6,
            universe_max: 10,
            max_reads: 4,
            max_writes: 3,
            p_barrier: 1,
            p_batch: 1,
            p_tl: 1,
            p_dep: 5,
            p_static: 3,
            p_unnamed: 2,
            p_odd_name: 2,
            max_deps: 3,
            dup_deps: true,
            max_depth: 3,
            allow_multi: true,
            tl_in_batch: true,
            max_n: 3,
            batch_decl: true,
            tl_in_batch_access: true,
            p_rejected: 0,
            write_chance: 16,
            extended_universe: false,
            rt_skew: 4,
            p_copy_deps: 0,
            p_all_unnamed: 1,
        }
    }
}

struct NameGen {
    used: BTreeSet<String>,
}

impl NameGen {
    fn make(&mut self, src: &mut Src, cfg: &GenCfg, i: usize) -> String {
        if ALL_UNNAMED.with(|s| s.get()) || src.chance(cfg.p_unnamed, 16) {
            return String::new();
        }
        let mut name = if src.chance(cfg.p_odd_name, 16) {
            // arbitrary short strings over letters and the characters that get sanitised, so that
            // runs of separators, leading / trailing separators and separator-only names occur
            // (no tab and no line break: the printed plan is a tab-indented, line-oriented text)
            const ALPHA: [char; 14] = [
                'a', 'b', ' ', '-', '/', '_', 'c', '"', '\\', '\u{4e2d}', '\u{42f}', '\u{e9}', '\u{a0}',
                '\u{2003}',
            ];
            let len = 1 + src.pick(5);
            let mut n = String::new();
            for _ in 0..len {
                n.push(ALPHA[src.pick(ALPHA.len())]);
            }
            // now and then a long name (well past any inline small-string capacity)
            if src.chance(2, 16) {
                n = n.repeat(20 + 100 * src.pick(3));
            }
            n
        } else {
            format!("s{}", i)
        };
        while !self.used.insert(name.clone()) {
            name.push('\'');
        }
        name
    }
}

pub fn gen_plan(src: &mut Src, cfg: &GenCfg) -> Plan {
    let u = 1 + src.pick(cfg.universe_max);
    let universe: Vec<Res> = if cfg.extended_universe {
        let start = src.pick(NT * ND);
        // strides coprime to 96
        let stride = [1usize, 5, 7, 11, 13, 17, 19, 23][src.pick(8)];
        (0..u)
            .map(|i| Res::from_index((start + i * stride) % (NT * ND)))
            .collect()
    } else {
        let start = src.pick(NT * ND_CLASSIC);
        let stride = 1 + 2 * src.pick(8);
        (0..u)
            .map(|i| Res::classic((start + i * stride) % (NT * ND_CLASSIC)))
            .collect()
    };
    let skew = cfg.rt_skew > 0 && src.chance(cfg.rt_skew, 16);
    RT_SKEW.with(|s| s.set(skew));
    let anon = cfg.p_all_unnamed > 0 && src.chance(cfg.p_all_unnamed, 16);
    ALL_UNNAMED.with(|s| s.set(anon));
    let plan = gen_builder(src, cfg, &universe, 0, cfg.max_ops);
    RT_SKEW.with(|s| s.set(false));
    ALL_UNNAMED.with(|s| s.set(false));
    plan
}

fn gen_access(src: &mut Src, cfg: &GenCfg, universe: &[Res]) -> (Vec<Res>, Vec<Res>) {
    let nw = if cfg.write_chance >= 16 || src.chance(cfg.write_chance, 16) {
        src.pick(cfg.max_writes + 1).min(universe.len())
    } else {
        0
    };
    let mut writes: Vec<Res> = vec![];
    for _ in 0..nw {
        let r = universe[src.pick(universe.len())];
        if !writes.contains(&r) {
            writes.push(r);
        }
    }
    let nr = src.pick(cfg.max_reads + 1);
    let mut reads: Vec<Res> = vec![];
    for _ in 0..nr {
        let r = universe[src.pick(universe.len())];
        if !writes.contains(&r) {
            reads.push(r);
        }
    }
    (reads, writes)
}

fn gen_deps(src: &mut Src, cfg: &GenCfg, named: &[usize], last: &mut Vec<usize>) -> Vec<usize> {
    let mut deps = vec![];
    // the very same list (same names, same order) as the last system that had one
    if cfg.p_copy_deps > 0 && !last.is_empty() && src.chance(cfg.p_copy_deps, 16) {
        return last.clone();
    }
    if !named.is_empty() && src.chance(cfg.p_dep, 16) {
        let k = 1 + src.pick(cfg.max_deps);
        for _ in 0..k {
            let d = named[src.pick(named.len())];
            if cfg.dup_deps || !deps.contains(&d) {
                deps.push(d);
            }
        }
    }
    if !deps.is_empty() {
        *last = deps.clone();
    }
    deps
}

fn gen_builder(
    src: &mut Src,
    cfg: &GenCfg,
    universe: &[Res],
    depth: usize,
    max_ops: usize,
) -> Vec<Op> {
    let n = src.pick(max_ops + 1);
    let mut ops: Vec<Op> = vec![];
    let mut named: Vec<usize> = vec![];
    let mut last_deps: Vec<usize> = vec![];
    let mut names = NameGen {
        used: BTreeSet::new(),
    };
    for i in 0..n {
        if src.chance(cfg.p_barrier, 16) {
            ops.push(Op::Barrier);
            continue;
        }
        if !named.is_empty() && src.chance(cfg.p_rejected, 16) {
            ops.push(Op::Rejected {
                dup_of: named[src.pick(named.len())],
                unknown_dep: src.chance(6, 16),
            });
            continue;
        }
        if (depth == 0 || cfg.tl_in_batch) && src.chance(cfg.p_tl, 16) {
            let (mut reads, mut writes) = gen_access(src, cfg, universe);
            if depth > 0 && !cfg.tl_in_batch_access {
                reads.clear();
                writes.clear();
            }
            ops.push(Op::Tl { reads, writes });
            continue;
        }
        if depth < cfg.max_depth && src.chance(cfg.p_batch, 16) {
            let name = names.make(src, cfg, i);
            let deps = gen_deps(src, cfg, &named, &mut last_deps);
            let decl = if cfg.batch_decl {
                src.pick(NFAM) as u8
            } else {
                0
            };
            // pick 0 -> dispatch once (the simplest interesting case), highest pick -> 0 times
            let times = ((1 + src.pick(cfg.max_n + 1)) % (cfg.max_n + 1)) as u8;
            let ctl = if cfg.allow_multi && src.chance(4, 16) {
                Ctl::Multi { planned: times as u32 }
            } else {
                Ctl::Custom { n: times }
            };
            let rt = gen_rt(src);
            let inner = gen_builder(src, cfg, universe, depth + 1, cfg.max_inner_ops);
            if !name.is_empty() {
                named.push(ops.len());
            }
            ops.push(Op::Batch {
                name,
                deps,
                decl,
                ctl,
                rt,
                inner,
                extra_deps: vec![],
            });
            continue;
        }
        let name = names.make(src, cfg, i);
        let deps = gen_deps(src, cfg, &named, &mut last_deps);
        let kind = if src.chance(cfg.p_static, 16) {
            Kind::Static(src.pick(NFAM) as u8)
        } else {
            Kind::Dyn
        };
        let (reads, writes) = match kind {
            Kind::Dyn => gen_access(src, cfg, universe),
            Kind::Static(_) => (vec![], vec![]),
        };
        let rt = gen_rt(src);
        if !name.is_empty() {
            named.push(ops.len());
        }
        ops.push(Op::Sys {
            name,
            deps,
            reads,
            writes,
            rt,
            kind,
            extra_deps: vec![],
        });
    }
    ops
}

// ------------------------------------------------------------------------------------------------
// structural simplification (one-step candidates, simplest first)

fn remove_op(ops: &[Op], i: usize) -> Vec<Op> {
    let mut out = vec![];
    // a rejected registration attempt that reused the removed op's name goes too: in a second step,
    // so that every index behind it is shifted as well
    let mut orphan: Option<usize> = None;
    for (j, op) in ops.iter().enumerate() {
        if j == i {
            continue;
        }
        let mut op = op.clone();
        let fix = |deps: &mut Vec<usize>| {
            deps.retain(|d| *d != i);
            for d in deps.iter_mut() {
                if *d > i {
                    *d -= 1;
                }
            }
        };
        match &mut op {
            Op::Sys { deps, .. } => fix(deps),
            Op::Batch { deps, .. } => fix(deps),
            Op::Rejected { dup_of, .. } => {
                if *dup_of == i || *dup_of == usize::MAX {
                    if orphan.is_none() {
                        orphan = Some(out.len());
                    }
                    *dup_of = usize::MAX;
                } else if *dup_of > i {
                    *dup_of -= 1;
                }
            }
            _ => {}
        }
        out.push(op);
    }
    match orphan {
        Some(j) => remove_op(&out, j),
        None => out,
    }
}

pub fn simplify_plan(ops: &[Op]) -> Vec<Vec<Op>> {
    let mut out: Vec<Vec<Op>> = vec![];
    // remove the second half, then single ops (last first)
    if ops.len() >= 4 {
        let mut a = ops.to_vec();
        for i in (ops.len() / 2..ops.len()).rev() {
            a = remove_op(&a, i);
        }
        out.push(a);
    }
    for i in (0..ops.len()).rev() {
        out.push(remove_op(ops, i));
    }
    for (i, op) in ops.iter().enumerate() {
        let mut variants: Vec<Op> = vec![];
        match op {
            Op::Sys {
                deps,
                reads,
                writes,
                rt,
                kind,
                extra_deps,
                ..
            } => {
                for k in 0..deps.len() {
                    let mut o = op.clone();
                    if let Op::Sys { deps, .. } = &mut o {
                        deps.remove(k);
                    }
                    variants.push(o);
                }
                for k in 0..extra_deps.len() {
                    let mut o = op.clone();
                    if let Op::Sys { extra_deps, .. } = &mut o {
                        extra_deps.remove(k);
                    }
                    variants.push(o);
                }
                for k in 0..reads.len() {
                    let mut o = op.clone();
                    if let Op::Sys { reads, .. } = &mut o {
                        reads.remove(k);
                    }
                    variants.push(o);
                }
                for k in 0..writes.len() {
                    let mut o = op.clone();
                    if let Op::Sys { writes, .. } = &mut o {
                        writes.remove(k);
                    }
                    variants.push(o);
                }
                if *rt != 3 {
                    let mut o = op.clone();
                    if let Op::Sys { rt, .. } = &mut o {
                        *rt = 3;
                    }
                    variants.push(o);
                }
                if let Kind::Static(k) = kind {
                    let (r, w) = family_access(*k);
                    let mut o = op.clone();
                    if let Op::Sys {
                        reads,
                        writes,
                        kind,
                        ..
                    } = &mut o
                    {
                        *reads = r;
                        *writes = w;
                        *kind = Kind::Dyn;
                    }
                    variants.push(o);
                }
            }
            Op::Batch {
                deps,
                decl,
                ctl,
                rt,
                inner,
                extra_deps,
                ..
            } => {
                for cand in simplify_plan(inner) {
                    let mut o = op.clone();
                    if let Op::Batch { inner, .. } = &mut o {
                        *inner = cand;
                    }
                    variants.push(o);
                }
                for k in 0..deps.len() {
                    let mut o = op.clone();
                    if let Op::Batch { deps, .. } = &mut o {
                        deps.remove(k);
                    }
                    variants.push(o);
                }
                for k in 0..extra_deps.len() {
                    let mut o = op.clone();
                    if let Op::Batch { extra_deps, .. } = &mut o {
                        extra_deps.remove(k);
                    }
                    variants.push(o);
                }
                if *decl != 0 {
                    let mut o = op.clone();
                    if let Op::Batch { decl, .. } = &mut o {
                        *decl = 0;
                    }
                    variants.push(o);
                }
                if *ctl != (Ctl::Custom { n: 1 }) {
                    let mut o = op.clone();
                    if let Op::Batch { ctl, .. } = &mut o {
                        *ctl = Ctl::Custom { n: 1 };
                    }
                    variants.push(o);
                }
                if *rt != 3 {
                    let mut o = op.clone();
                    if let Op::Batch { rt, .. } = &mut o {
                        *rt = 3;
                    }
                    variants.push(o);
                }
            }
            Op::Tl { reads, writes } => {
                for k in 0..reads.len() {
                    let mut o = op.clone();
                    if let Op::Tl { reads, .. } = &mut o {
                        reads.remove(k);
                    }
                    variants.push(o);
                }
                for k in 0..writes.len() {
                    let mut o = op.clone();
                    if let Op::Tl { writes, .. } = &mut o {
                        writes.remove(k);
                    }
                    variants.push(o);
                }
            }
            Op::Barrier | Op::Rejected { .. } => {}
        }
        for v in variants {
            let mut n = ops.to_vec();
            n[i] = v;
            out.push(n);
        }
    }
    out
}

pub fn plan_size(ops: &[Op]) -> usize {
    ops.iter()
        .map(|op| match op {
            Op::Sys {
                deps,
                reads,
                writes,
                ..
            } => 4 + deps.len() + reads.len() + writes.len(),
            Op::Barrier | Op::Rejected { .. } => 1,
            Op::Tl { reads, writes } => 2 + reads.len() + writes.len(),
            Op::Batch { deps, inner, .. } => 6 + deps.len() + plan_size(inner),
        })
        .sum()
}

pub fn count_systems(ops: &[Op]) -> usize {
    ops.iter()
        .map(|op| match op {
            Op::Sys { .. } | Op::Tl { .. } => 1,
            Op::Barrier | Op::Rejected { .. } => 0,
            Op::Batch { inner, .. } => 1 + count_systems(inner),
        })
        .sum()
}
