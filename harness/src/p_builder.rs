//! C18 (builder totality + the two rejections), C19 (determinism, metamorphic), C20 (printed plan).

use serde::{Deserialize, Serialize};
use serde_json::json;

use crate::build::{build_builder, build_plan, panic_msg, pool, BuildOpts, Built};
use crate::conductor::LayoutSet;
use crate::driver::{Fail, Prop, Stats};
use crate::hsys::Ctx;
use crate::oracles;
use crate::plan::{compile, gen_plan, simplify_plan, GenCfg, Op, Plan, Src};
use crate::res::{Res, ND, NT};

use std::panic::{catch_unwind, AssertUnwindSafe};
use std::sync::Arc;

// ------------------------------------------------------------------------------------------------
// C20

pub fn sanitise(name: &str) -> String {
    name.replace([' ', '-', '/'], "_")
}

pub fn parse_par_seq(text: &str) -> Result<Vec<Vec<Vec<String>>>, String> {
    let mut stages: Vec<Vec<Vec<String>>> = vec![];
    let mut depth = 0usize;
    let mut closed = false;
    for (ln, raw) in text.lines().enumerate() {
        let tabs = raw.chars().take_while(|c| *c == '\t').count();
        let body = &raw[tabs..];
        let err = |what: &str| Err(format!("line {}: {} ({:?})", ln + 1, what, raw));
        if closed {
            if body.trim().is_empty() {
                continue;
            }
            return err("text after the closing bracket");
        }
        match (depth, tabs, body) {
            (0, 0, "seq![") => depth = 1,
            (1, 1, "par![") => {
                stages.push(vec![]);
                depth = 2;
            }
            (1, 0, "]") => {
                depth = 0;
                closed = true;
            }
            (2, 2, "seq![") => {
                stages.last_mut().unwrap().push(vec![]);
                depth = 3;
            }
            (2, 1, "],") => depth = 1,
            (3, 2, "],") => depth = 2,
            (3, 3, entry) => match entry.strip_suffix(',') {
                Some(name) => stages
                    .last_mut()
                    .unwrap()
                    .last_mut()
                    .unwrap()
                    .push(name.to_string()),
                None => return err("entry without trailing comma"),
            },
            _ => return err("unexpected line for the seq/par/seq nesting"),
        }
    }
    if !closed {
        return Err("text ends before the outer seq![ is closed".into());
    }
    Ok(stages)
}

pub fn o_c20(_p: &Plan, b: &Built, st: &mut Stats) -> Result<bool, Fail> {
    oracles::check_complete(&b.flat, &b.layouts)?;
    let texts = b.ctx.debug_texts.lock().unwrap().clone();
    let mut nontrivial = false;
    for bi in &b.flat.builders {
        let has_unnamed = bi.members.iter().any(|m| b.flat.sys[*m].name.is_empty());
        let text = match texts.get(&bi.bid) {
            None => {
                return Err(Fail::new(format!(
                    "harness: no debug text captured for builder {}",
                    bi.bid
                )))
            }
            Some(Err(msg)) => {
                return Err(Fail::keyed(
                    if has_unnamed {
                        "debug-panics-unnamed"
                    } else {
                        "debug-panics"
                    },
                    format!(
                        "formatting builder {} with {{:?}} panicked: {}",
                        bi.bid, msg
                    ),
                ))
            }
            Some(Ok(t)) => t.clone(),
        };
        let parsed = parse_par_seq(&text).map_err(|e| {
            Fail::new(format!(
                "printed plan of builder {} is not a seq/par/seq nesting: {}",
                bi.bid, e
            ))
        })?;
        // width, precision, fill and the alternate flag of the caller's placeholder change nothing
        if let Some(v) = b.ctx.debug_variants.lock().unwrap().get(&bi.bid) {
            if let Some((spec, other)) = v.first() {
                return Err(Fail::new(format!(
                    "builder {}: formatted with {} the text is {:?}, with {{:?}} it is {:?}",
                    bi.bid, spec, other, text
                )));
            }
        }
        // print_par_seq writes the same plan to standard output
        if let Some(out) = b.ctx.printed_texts.lock().unwrap().get(&bi.bid) {
            let from_stdout = parse_par_seq(out).map_err(|e| {
                Fail::new(format!(
                    "what print_par_seq wrote to standard output for builder {} is not a seq/par/seq nesting: {} (text: {:?})",
                    bi.bid, e, out
                ))
            })?;
            if from_stdout != parsed {
                return Err(Fail::new(format!(
                    "builder {}: print_par_seq wrote {:?} to standard output, {{:?}} gives {:?}",
                    bi.bid, out, text
                )));
            }
            st.class("print_par_seq_output_compared");
        }
        let l = &b.layouts.by_bid[&bi.bid];
        let shape: Vec<Vec<usize>> = parsed
            .iter()
            .map(|s| s.iter().map(|g| g.len()).collect())
            .collect();
        if shape != l.shape() {
            return Err(Fail::new(format!(
                "builder {}: printed plan has shape {:?}, the executed plan has {:?}",
                bi.bid,
                shape,
                l.shape()
            )));
        }
        for (s, stg) in l.stages.iter().enumerate() {
            for (g, grp) in stg.iter().enumerate() {
                for (p, x) in grp.iter().enumerate() {
                    let printed = &parsed[s][g][p];
                    let name = &b.flat.sys[*x].name;
                    if name.is_empty() {
                        if printed.trim().is_empty() {
                            return Err(Fail::new(format!(
                                "builder {}: unnamed system {} is printed as an empty entry",
                                bi.bid,
                                b.flat.sys[*x].sid()
                            )));
                        }
                    } else if *printed != sanitise(name) {
                        return Err(Fail::new(format!(
                            "builder {}: position ({},{},{}) runs {:?} (sanitised {:?}) but the printed plan says {:?}",
                            bi.bid, s, g, p, name, sanitise(name), printed
                        )));
                    }
                }
            }
        }
        if has_unnamed {
            st.class("builders_with_unnamed");
        }
        if bi.members.is_empty() {
            st.class("empty_builders");
        }
        if bi
            .members
            .iter()
            .any(|m| sanitise(&b.flat.sys[*m].name) != b.flat.sys[*m].name)
        {
            st.class("builders_with_name_needing_sanitising");
        }
        if bi.members.len() >= 2 {
            nontrivial = true;
        }
    }
    Ok(nontrivial)
}

// ------------------------------------------------------------------------------------------------
// C18

#[derive(Clone, Debug, Serialize, Deserialize)]
pub struct Planted {
    /// path of the op whose registration must panic
    pub path: Vec<usize>,
    /// the name the panic message must quote
    pub name: String,
    pub kind: String,
}

#[derive(Clone, Debug, Serialize, Deserialize)]
pub struct C18Case {
    pub plan: Plan,
    pub planted: Option<Planted>,
}

pub struct C18 {
    pub name: &'static str,
    pub rule: &'static str,
    pub cfg: GenCfg,
    pub stream_len: usize,
    /// plant an ill-formed call in 1/2 of the cases
    pub plant: bool,
}

fn builder_at_mut<'a>(plan: &'a mut Vec<Op>, path: &[usize]) -> &'a mut Vec<Op> {
    let mut cur = plan;
    for p in path {
        cur = match &mut cur[*p] {
            Op::Batch { inner, .. } => inner,
            _ => panic!("harness: path does not lead to a batch"),
        };
    }
    cur
}

fn collect_builders(ops: &[Op], prefix: &mut Vec<usize>, out: &mut Vec<Vec<usize>>) {
    out.push(prefix.clone());
    for (i, op) in ops.iter().enumerate() {
        if let Op::Batch { inner, .. } = op {
            prefix.push(i);
            collect_builders(inner, prefix, out);
            prefix.pop();
        }
    }
}

fn op_name(op: &Op) -> Option<&str> {
    match op {
        Op::Sys { name, .. } | Op::Batch { name, .. } => Some(name.as_str()),
        _ => None,
    }
}

fn plant(src: &mut Src, plan: &mut Plan) -> Option<Planted> {
    let mut builders = vec![];
    collect_builders(plan, &mut vec![], &mut builders);
    // builders that have at least one Sys/Batch op
    let cands: Vec<Vec<usize>> = builders
        .into_iter()
        .filter(|bp| {
            let mut p2 = plan.clone();
            builder_at_mut(&mut p2, bp)
                .iter()
                .any(|o| op_name(o).is_some())
        })
        .collect();
    if cands.is_empty() {
        return None;
    }
    let bpath = cands[src.pick(cands.len())].clone();
    let parent_names: Vec<String> = if bpath.is_empty() {
        vec![]
    } else {
        let mut p2 = plan.clone();
        builder_at_mut(&mut p2, &bpath[..bpath.len() - 1])
            .iter()
            .filter_map(|o| op_name(o).map(|s| s.to_string()))
            .filter(|s| !s.is_empty())
            .collect()
    };
    let ops = builder_at_mut(plan, &bpath);
    let idxs: Vec<usize> = (0..ops.len())
        .filter(|i| op_name(&ops[*i]).is_some())
        .collect();
    let k = idxs[src.pick(idxs.len())];
    let earlier: Vec<String> = ops[..k]
        .iter()
        .filter_map(|o| op_name(o).map(|s| s.to_string()))
        .filter(|s| !s.is_empty())
        .collect();
    let later: Vec<String> = ops[k + 1..]
        .iter()
        .filter_map(|o| op_name(o).map(|s| s.to_string()))
        .filter(|s| !s.is_empty() && !earlier.contains(s))
        .collect();
    let own = op_name(&ops[k]).unwrap().to_string();
    let mut kind = src.pick(6);
    let mut path = bpath.clone();
    path.push(k);
    let push_dep = |op: &mut Op, name: &str, front: bool| match op {
        Op::Sys { extra_deps, .. } | Op::Batch { extra_deps, .. } => {
            if front {
                extra_deps.insert(0, name.to_string())
            } else {
                extra_deps.push(name.to_string())
            }
        }
        _ => {}
    };
    loop {
        match kind {
            5 if !earlier.is_empty() => {
                let dup = earlier[src.pick(earlier.len())].clone();
                match &mut ops[k] {
                    Op::Sys { name, .. } | Op::Batch { name, .. } => *name = dup.clone(),
                    _ => {}
                }
                // ops after k that depend on k keep working: nothing after k is registered
                return Some(Planted {
                    path,
                    name: dup,
                    kind: "duplicate-name".into(),
                });
            }
            4 => {
                let foreign: Vec<&String> = parent_names
                    .iter()
                    .filter(|n| !earlier.contains(n))
                    .collect();
                if !foreign.is_empty() {
                    let n = foreign[src.pick(foreign.len())].clone();
                    push_dep(&mut ops[k], &n, false);
                    return Some(Planted {
                        path,
                        name: n,
                        kind: "dep-on-name-of-parent-builder".into(),
                    });
                }
            }
            3 if !later.is_empty() => {
                let n = later[src.pick(later.len())].clone();
                push_dep(&mut ops[k], &n, false);
                return Some(Planted {
                    path,
                    name: n,
                    kind: "dep-on-later-system".into(),
                });
            }
            2 if !own.is_empty() => {
                push_dep(&mut ops[k], &own, false);
                return Some(Planted {
                    path,
                    name: own,
                    kind: "dep-on-itself".into(),
                });
            }
            1 => {
                push_dep(&mut ops[k], "", false);
                return Some(Planted {
                    path,
                    name: String::new(),
                    kind: "dep-on-empty-name".into(),
                });
            }
            0 => {
                // a name nobody registered: a fixed one, or a look-alike of a registered name (its
                // printed form, another separator, other case, a prefix, a trailing blank, doubled)
                if !earlier.is_empty() && src.chance(10, 16) {
                    let base = earlier[src.pick(earlier.len())].clone();
                    let mut prefix = base.clone();
                    prefix.pop();
                    let cands = [
                        sanitise(&base),
                        base.replace('_', "-"),
                        base.replace('_', " "),
                        format!("{} ", base),
                        base.to_uppercase(),
                        prefix,
                        format!("{}{}", base, base),
                    ];
                    let start = src.pick(cands.len());
                    for j in 0..cands.len() {
                        let c = &cands[(start + j) % cands.len()];
                        if !c.is_empty() && !earlier.contains(c) {
                            push_dep(&mut ops[k], c, false);
                            return Some(Planted {
                                path,
                                name: c.clone(),
                                kind: "dep-on-look-alike-of-a-registered-name".into(),
                            });
                        }
                    }
                }
                let n = format!("nope{}", src.pick(4));
                push_dep(&mut ops[k], &n, false);
                return Some(Planted {
                    path,
                    name: n,
                    kind: "dep-on-unknown-name".into(),
                });
            }
            _ => {}
        }
        kind = if kind == 0 { 0 } else { kind - 1 };
    }
}

impl Prop for C18 {
    type Case = C18Case;
    fn name(&self) -> &'static str {
        self.name
    }
    fn property(&self) -> &'static str {
        "C18"
    }
    fn rule(&self) -> &'static str {
        self.rule
    }
    fn stream_len(&self) -> usize {
        self.stream_len
    }
    fn gen(&self, src: &mut Src) -> C18Case {
        let do_plant = self.plant && src.chance(8, 16);
        let mut plan = gen_plan(src, &self.cfg);
        let planted = if do_plant {
            plant(src, &mut plan)
        } else {
            None
        };
        C18Case { plan, planted }
    }
    fn check(&self, case: &C18Case, lane: usize, st: &mut Stats) -> Result<(), Fail> {
        let flat = Arc::new(compile(&case.plan));
        let ctx = Ctx::new(flat.clone());
        let n_sys = flat.sys.len();
        st.class_n("registration_calls", n_sys as u64);
        if n_sys >= 100 {
            st.class("sequences>=100_systems");
        }
        let r = build_builder(
            &case.plan,
            &flat,
            0,
            &ctx,
            Some(pool(lane, 1)),
            &BuildOpts::default(),
        );
        match (&case.planted, r) {
            (None, Err(bp)) => Err(Fail::new(format!(
                "well-formed registration at op {:?} panicked: {}",
                bp.path, bp.msg
            ))),
            (None, Ok(b)) => {
                // the builder's own view of the names it holds
                let names: Vec<&str> = case
                    .plan
                    .iter()
                    .filter_map(op_name)
                    .filter(|n| !n.is_empty())
                    .collect();
                for n in &names {
                    if !b.has_system(n) || !b.contains(n) {
                        return Err(Fail::new(format!(
                            "has_system / contains deny the registered name {:?} (has_system {}, contains {})",
                            n,
                            b.has_system(n),
                            b.contains(n)
                        )));
                    }
                    for probe in [format!("{}\u{1}", n), sanitise(n), format!(" {}", n)] {
                        if !names.contains(&probe.as_str()) && (b.has_system(&probe) || b.contains(&probe)) {
                            return Err(Fail::new(format!(
                                "has_system / contains report the name {:?}, which was never registered (registered: {:?})",
                                probe, n
                            )));
                        }
                    }
                }
                // the documentation says "systems added", the code counts the named ones: either
                // reading is accepted, as long as the two queries agree with each other
                let total = case.plan.iter().filter(|o| op_name(o).is_some()).count();
                let (num, empty) = (b.num_systems(), b.is_empty());
                let as_named = num == names.len() && empty == names.is_empty();
                let as_all = num == total && empty == (total == 0);
                if b.has_system("") || !(as_named || as_all) {
                    return Err(Fail::new(format!(
                        "the builder reports num_systems {} / is_empty {} / has_system(\"\") {}; {} systems were registered, {} of them named",
                        num,
                        empty,
                        b.has_system(""),
                        total,
                        names.len()
                    )));
                }
                let d = catch_unwind(AssertUnwindSafe(|| b.build())).map_err(|p| {
                    Fail::new(format!(
                        "build() of a well-formed sequence panicked: {}",
                        panic_msg(&p)
                    ))
                })?;
                let (shape, _) = d.verif_shape();
                if shape.iter().flatten().any(|g| *g >= 4) {
                    st.class("plans_with_full_group");
                }
                if n_sys >= 8 {
                    st.nontrivial(case, || json!({ "shape": shape }));
                }
                st.class("well_formed");
                Ok(())
            }
            (Some(pl), Ok(_)) => Err(Fail::new(format!(
                "ill-formed registration ({}, name {:?}) at op {:?} was accepted without a panic",
                pl.kind, pl.name, pl.path
            ))),
            (Some(pl), Err(bp)) => {
                if bp.path != pl.path {
                    return Err(Fail::new(format!(
                        "the panic came from the call at op {:?} ({}), but the ill-formed call ({}) is at op {:?}",
                        bp.path, bp.msg, pl.kind, pl.path
                    )));
                }
                let quoted = format!("\"{}\"", pl.name);
                if !bp.msg.contains(&quoted) {
                    return Err(Fail::new(format!(
                        "panic message {:?} of the {} call does not quote the offending name {}",
                        bp.msg, pl.kind, quoted
                    )));
                }
                st.class(&format!("planted_{}", pl.kind));
                st.nontrivial(case, || json!({ "panic_message": bp.msg }));
                Ok(())
            }
        }
    }
    fn simplify(&self, case: &C18Case) -> Vec<C18Case> {
        // only well-formed cases are simplified structurally (a plant refers to a path)
        if case.planted.is_some() {
            return vec![];
        }
        simplify_plan(&case.plan)
            .into_iter()
            .map(|p| C18Case {
                plan: p,
                planted: None,
            })
            .collect()
    }
}

// ------------------------------------------------------------------------------------------------
// C19

#[derive(Clone, Debug, Serialize, Deserialize)]
pub struct C19Case {
    pub plan: Plan,
    /// injective relabelling of the resource universe (index -> index)
    pub res_map: Vec<usize>,
    /// seed values steering renaming and list permutation
    pub knobs: Vec<u16>,
}

pub struct C19 {
    pub cfg: GenCfg,
    pub name: &'static str,
}

fn map_res(r: Res, m: &[usize]) -> Res {
    Res::from_index(m[r.t as usize * ND + r.d as usize])
}

fn permute<T: Clone>(v: &[T], k: &mut Src) -> Vec<T> {
    let mut out = v.to_vec();
    // Fisher-Yates driven by the knob stream
    for i in (1..out.len()).rev() {
        let j = k.pick(i + 1);
        out.swap(i, j);
    }
    out
}

/// names: bijective renaming; systems nobody depends on may also lose / gain a name
fn transform_builder(ops: &[Op], m: &[usize], k: &mut Src) -> Vec<Op> {
    let referenced: std::collections::BTreeSet<usize> = ops
        .iter()
        .flat_map(|o| match o {
            Op::Sys { deps, .. } | Op::Batch { deps, .. } => deps.clone(),
            _ => vec![],
        })
        .collect();
    let salt = k.pick(1000);
    ops.iter()
        .enumerate()
        .map(|(i, op)| {
            let rename = |name: &str, k: &mut Src| -> String {
                if referenced.contains(&i) {
                    format!("r{}-{} x/{}", salt, i, i * 7)
                } else if name.is_empty() {
                    if k.chance(8, 16) {
                        format!("was unnamed {}", i)
                    } else {
                        String::new()
                    }
                } else if k.chance(4, 16) {
                    String::new()
                } else {
                    format!("q{}_{}", salt, ops.len() - i)
                }
            };
            match op {
                Op::Barrier => Op::Barrier,
                Op::Rejected { dup_of, unknown_dep } => Op::Rejected { dup_of: *dup_of, unknown_dep: *unknown_dep },
                Op::Tl { reads, writes } => Op::Tl {
                    reads: permute(&reads.iter().map(|r| map_res(*r, m)).collect::<Vec<_>>(), k),
                    writes: permute(&writes.iter().map(|r| map_res(*r, m)).collect::<Vec<_>>(), k),
                },
                Op::Sys {
                    name,
                    deps,
                    reads,
                    writes,
                    rt,
                    kind,
                    extra_deps,
                } => {
                    let mut r: Vec<Res> = reads.iter().map(|r| map_res(*r, m)).collect();
                    if !r.is_empty() && k.chance(4, 16) {
                        // listing a read twice changes nothing
                        let x = r[k.pick(r.len())];
                        r.push(x);
                    }
                    Op::Sys {
                        name: rename(name, k),
                        deps: deps.clone(),
                        reads: permute(&r, k),
                        writes: permute(
                            &writes.iter().map(|r| map_res(*r, m)).collect::<Vec<_>>(),
                            k,
                        ),
                        rt: *rt,
                        kind: kind.clone(),
                        extra_deps: extra_deps.clone(),
                    }
                }
                Op::Batch {
                    name,
                    deps,
                    decl,
                    ctl,
                    rt,
                    inner,
                    extra_deps,
                } => Op::Batch {
                    name: rename(name, k),
                    deps: deps.clone(),
                    decl: *decl,
                    ctl: ctl.clone(),
                    rt: *rt,
                    inner: transform_builder(inner, m, k),
                    extra_deps: extra_deps.clone(),
                },
            }
        })
        .collect()
}

pub fn layouts_of(plan: &Plan, lane: usize) -> Result<(Built, LayoutSet), Fail> {
    let b = build_plan(plan, pool(lane, 1), &BuildOpts::default())
        .map_err(|e| Fail::keyed("build-or-identify", e))?;
    let l = (*b.layouts).clone();
    Ok((b, l))
}

impl Prop for C19 {
    type Case = C19Case;
    fn name(&self) -> &'static str {
        self.name
    }
    fn property(&self) -> &'static str {
        "C19"
    }
    fn rule(&self) -> &'static str {
        "plan P (dynamic-id systems only) and P' = bijective renaming of systems (unreferenced ones also to/from \"\") + injective relabelling of all 96 resource ids across types and dynamic ids + permutation / read-duplication of every declared list; oracle: canonical layouts (registration indices, nested, thread-local order) of P, P built a second time, and P' are identical; non-trivial = >= 2 stages and >= 1 group of >= 2; distinct = hash of (plan, relabelling)"
    }
    fn gen(&self, src: &mut Src) -> C19Case {
        let plan = gen_plan(src, &self.cfg);
        let mut res_map: Vec<usize> = (0..NT * ND).collect();
        for i in (1..res_map.len()).rev() {
            let j = src.pick(i + 1);
            res_map.swap(i, j);
        }
        let knobs: Vec<u16> = (0..64).map(|_| src.raw()).collect();
        C19Case {
            plan,
            res_map,
            knobs,
        }
    }
    fn check(&self, case: &C19Case, lane: usize, st: &mut Stats) -> Result<(), Fail> {
        if case.res_map.len() != NT * ND {
            return Err(Fail::new("harness: bad relabelling in case"));
        }
        let (b1, l1) = layouts_of(&case.plan, lane)?;
        crate::p_layout::classify(&b1, st);
        let (_b2, l2) = layouts_of(&case.plan, lane)?;
        if l1 != l2 {
            return Err(Fail::new(format!(
                "building the same registration sequence twice gave different plans: {} vs {}",
                oracles::describe(&b1.flat, &l1),
                oracles::describe(&b1.flat, &l2)
            )));
        }
        let mut k = Src::new(&case.knobs);
        let p2 = transform_builder(&case.plan, &case.res_map, &mut k);
        let (_b3, l3) = layouts_of(&p2, lane)?;
        if l1 != l3 {
            return Err(Fail::new(format!(
                "renaming systems / relabelling resources / permuting declared lists changed the plan: {} vs {}",
                oracles::describe(&b1.flat, &l1),
                oracles::describe(&b1.flat, &l3)
            )));
        }
        let l0 = &l1.by_bid[&0];
        if l0.stages.len() >= 2 && l1.by_bid.values().any(|l| l.stages.iter().flatten().any(|g| g.len() >= 2)) {
            st.nontrivial(case, || oracles::describe(&b1.flat, &l1));
        }
        Ok(())
    }
    fn simplify(&self, case: &C19Case) -> Vec<C19Case> {
        simplify_plan(&case.plan)
            .into_iter()
            .map(|p| C19Case {
                plan: p,
                res_map: case.res_map.clone(),
                knobs: case.knobs.clone(),
            })
            .collect()
    }
}

// ------------------------------------------------------------------------------------------------
// C03: a barrier that follows no registration changes nothing (metamorphic)

pub struct C03Noop {
    pub cfg: GenCfg,
}

fn strip_noop_barriers(ops: &[Op]) -> Vec<Op> {
    // remove barrier ops that are leading or directly repeat an effective barrier (thread-local
    // registrations do not count as registrations for this purpose)
    let mut out: Vec<Op> = vec![];
    let mut since = false;
    let mut removed_before: Vec<usize> = vec![];
    let mut removed = 0usize;
    for op in ops {
        removed_before.push(removed);
        match op {
            Op::Barrier => {
                if since {
                    out.push(Op::Barrier);
                    since = false;
                } else {
                    removed += 1;
                }
            }
            Op::Tl { .. } | Op::Rejected { .. } => out.push(op.clone()),
            Op::Sys { .. } => {
                since = true;
                out.push(op.clone());
            }
            Op::Batch { inner, .. } => {
                since = true;
                let mut o = op.clone();
                if let Op::Batch { inner: i2, .. } = &mut o {
                    *i2 = strip_noop_barriers(inner);
                }
                out.push(o);
            }
        }
    }
    // dependency indices refer to positions in the op list: shift them
    for o in out.iter_mut() {
        if let Op::Sys { deps, .. } | Op::Batch { deps, .. } = o {
            for d in deps.iter_mut() {
                *d -= removed_before[*d];
            }
        }
        if let Op::Rejected { dup_of, .. } = o {
            *dup_of -= removed_before[*dup_of];
        }
    }
    out
}

impl Prop for C03Noop {
    type Case = Plan;
    fn name(&self) -> &'static str {
        "c03-noop-barrier"
    }
    fn property(&self) -> &'static str {
        "C03"
    }
    fn rule(&self) -> &'static str {
        "plans with many barriers (1/3 of the ops, so leading and repeated ones are common, also inside batch builders); metamorphic oracle: removing every barrier that follows no registration since the previous barrier (or the beginning) yields the identical executed plan at every nesting level; non-trivial = >= 1 such barrier removed and >= 2 stages; distinct = plan hash"
    }
    fn gen(&self, src: &mut Src) -> Plan {
        gen_plan(src, &self.cfg)
    }
    fn check(&self, plan: &Plan, lane: usize, st: &mut Stats) -> Result<(), Fail> {
        let stripped = strip_noop_barriers(plan);
        let (b1, l1) = layouts_of(plan, lane)?;
        let (_b2, l2) = layouts_of(&stripped, lane)?;
        if l1 != l2 {
            return Err(Fail::new(format!(
                "removing barriers that follow no registration changed the plan: {} vs {}",
                oracles::describe(&b1.flat, &l1),
                oracles::describe(&b1.flat, &l2)
            )));
        }
        fn count_barriers(ops: &[Op]) -> usize {
            ops.iter()
                .map(|o| match o {
                    Op::Barrier => 1,
                    Op::Batch { inner, .. } => count_barriers(inner),
                    _ => 0,
                })
                .sum()
        }
        if count_barriers(plan) > count_barriers(&stripped) && l1.by_bid[&0].stages.len() >= 2 {
            st.nontrivial(plan, || oracles::describe(&b1.flat, &l1));
        }
        Ok(())
    }
    fn simplify(&self, case: &Plan) -> Vec<Plan> {
        simplify_plan(case)
    }
}

// ------------------------------------------------------------------------------------------------
// C19 / C05: the same registration sequences in a second process and without the `parallel` feature

/// replay of one plan through the external comparisons
pub fn replay_external(property: &'static str, case: &serde_json::Value) -> Result<Result<(), String>, String> {
    let plan: Plan = serde_json::from_value(case.clone()).map_err(|e| e.to_string())?;
    let r = run_external_on(property, vec![plan], 0);
    if let Some(h) = r.harness_error {
        return Err(h);
    }
    Ok(match r.violation {
        Some(v) => Err(v.msg),
        None => Ok(()),
    })
}

pub fn run_external(property: &'static str, quick: bool, seed: u64) -> crate::driver::SubResult {
    use proptest::collection::vec as pvec;
    use proptest::prelude::any;
    use proptest::strategy::{Strategy, ValueTree};
    use proptest::test_runner::{Config, RngSeed, TestRunner};
    let n = if quick { 3000 } else { 100_000 };
    let cfg = Config {
        rng_seed: RngSeed::Fixed(seed.wrapping_mul(64).wrapping_add(19)),
        failure_persistence: None,
        ..Config::default()
    };
    let mut runner = TestRunner::new(cfg);
    let strat = pvec(any::<u16>(), 0..=500usize);
    let gcfg = GenCfg {
        max_ops: 14,
        tl_in_batch_access: false,
        // the layout properties look at the classes they are about
        p_barrier: if property == "C03" { 4 } else { 1 },
        p_dep: if property == "C02" || property == "C10" { 10 } else { 5 },
        ..GenCfg::default()
    };
    // every other plan comes from the funnel class (groups filled to capacity)
    let fcfg = GenCfg {
        max_ops: 40,
        universe_max: 3,
        max_reads: 1,
        max_writes: 1,
        p_barrier: 0,
        p_batch: 0,
        p_tl: 0,
        p_dep: 1,
        p_static: 0,
        ..GenCfg::default()
    };
    let mut plans: Vec<Plan> = vec![];
    for i in 0..n {
        let stream = strat.new_tree(&mut runner).map(|t| t.current()).unwrap_or_default();
        plans.push(gen_plan(&mut Src::new(&stream), if i % 2 == 0 { &gcfg } else { &fcfg }));
    }
    run_external_on(property, plans, seed)
}

fn run_external_on(property: &'static str, plans: Vec<Plan>, seed: u64) -> crate::driver::SubResult {
    use crate::driver::{verif_dir, SubResult, Violation};
    let t0 = std::time::Instant::now();
    let name = match property {
        "C19" => "c19-processes",
        "C20" => "c20-nopar",
        "C01" => "c01-nopar",
        "C02" => "c02-nopar",
        "C03" => "c03-nopar",
        "C10" => "c10-nopar",
        _ => "c05-nopar",
    };
    let layout_only = matches!(property, "C01" | "C02" | "C03" | "C10");
    let rule = if property == "C20" {
        "generated registration sequences formatted with {:?} (every nested builder) in this process, in a second process and by the harness built WITHOUT the `parallel` feature; oracle: the printed texts are identical (the text of this process is checked against the executed plan by c20-printed); non-trivial = >= 2 stages; distinct = plan hash"
    } else if layout_only {
        "the property's plan classes (general generator tilted to barriers for C03 and to dependencies for C02 / C10, every other plan from the funnel class) summarised (canonical nested layout) in this process, in a second process and by the harness built against shred WITHOUT the `parallel` feature; oracle: the layouts are identical, so everything the in-process layout oracles of this property establish holds for that build too; non-trivial = >= 2 stages; distinct = plan hash"
    } else if property == "C19" {
        "generated registration sequences (general generator) summarised (canonical nested layout) in this process, in a SECOND PROCESS of the same binary (ahash is seeded per process) and by the harness built against shred WITHOUT the `parallel` feature; oracle: the three layouts are identical; non-trivial = >= 2 stages; distinct = plan hash"
    } else {
        "generated registration sequences whose systems apply order-sensitive updates, dispatched 2x sequentially in this process (dispatch_seq + thread-local), in a second process, and by the harness built WITHOUT the `parallel` feature (both dispatch_seq + thread-local and plain dispatch); oracle: world contents, every system's state and run counters are identical in all of them; non-trivial = a resource written by >= 2 systems; distinct = plan hash"
    };
    let mut stats = Stats::default();
    let mut violation = None;
    let mut harness_error = None;
    let td = std::env::var("CARGO_TARGET_DIR").unwrap_or_else(|_| verif_dir().join("target").to_string_lossy().to_string());
    let dir = std::path::Path::new(&td).join("external");
    let _ = std::fs::create_dir_all(&dir);
    let input = dir.join(format!("{}-plans.jsonl", property));
    let text: String = plans.iter().map(|p| serde_json::to_string(p).unwrap() + "\n").collect();
    if let Err(e) = std::fs::write(&input, text) {
        harness_error = Some(format!("cannot write {}: {}", input.display(), e));
    }
    // this process
    let own: Vec<serde_json::Value> = plans.iter().map(|p| crate::nopar::summarise(p, 2)).collect();
    let mut others: Vec<(&str, Vec<serde_json::Value>)> = vec![];
    let mut run = |label: &'static str, exe: std::path::PathBuf, args: Vec<String>| -> Result<(), String> {
        let out = dir.join(format!("{}-{}.jsonl", property, label));
        let mut a = args;
        a.push(input.to_string_lossy().to_string());
        a.push(out.to_string_lossy().to_string());
        let st = std::process::Command::new(&exe)
            .args(&a)
            .status()
            .map_err(|e| format!("cannot run {}: {}", exe.display(), e))?;
        if !st.success() {
            return Err(format!("{} ended with {:?}", exe.display(), st.code()));
        }
        let text = std::fs::read_to_string(&out).map_err(|e| e.to_string())?;
        let v: Vec<serde_json::Value> = text
            .lines()
            .map(|l| serde_json::from_str(l).unwrap_or(serde_json::Value::Null))
            .collect();
        others.push((label, v));
        Ok(())
    };
    if harness_error.is_none() {
        match std::env::current_exe() {
            Ok(exe) => {
                if let Err(e) = run("second-process", exe, vec!["layouts".into()]) {
                    harness_error = Some(e);
                }
            }
            Err(e) => harness_error = Some(e.to_string()),
        }
    }
    if harness_error.is_none() {
        match std::env::var("VERIF_NOPAR_BIN") {
            Ok(p) if std::path::Path::new(&p).exists() => {
                if let Err(e) = run("no-parallel-feature", p.into(), vec![]) {
                    harness_error = Some(e);
                }
            }
            _ => {
                harness_error = Some("the harness without the `parallel` feature was not built (VERIF_NOPAR_BIN)".into());
            }
        }
    }
    if harness_error.is_none() {
        'cmp: for (i, plan) in plans.iter().enumerate() {
            stats.evaluations += 1;
            let mine = &own[i];
            if mine.get("error").is_some() {
                continue;
            }
            let nontrivial = if property == "C19" || property == "C20" {
                mine["layouts"]["by_bid"]["0"]["stages"].as_array().map(|a| a.len() >= 2).unwrap_or(false)
            } else {
                let f = compile(plan);
                let mut w = std::collections::BTreeMap::new();
                for s in &f.sys {
                    for x in &s.own_w {
                        *w.entry(*x).or_insert(0) += 1;
                    }
                }
                w.values().any(|c| *c >= 2)
            };
            if nontrivial {
                stats.nontrivial(plan, || mine["layouts"].clone());
            }
            for (label, v) in &others {
                let theirs = v.get(i).cloned().unwrap_or(serde_json::Value::Null);
                let mut diffs = vec![];
                if property == "C20" {
                    if theirs["printed"] != mine["printed"] {
                        diffs.push(format!("printed plan differs: {} vs {}", mine["printed"], theirs["printed"]));
                    }
                } else if property == "C19" || layout_only {
                    if theirs["layouts"] != mine["layouts"] {
                        diffs.push(format!("plan differs: {} vs {}", mine["layouts"], theirs["layouts"]));
                    }
                } else {
                    if theirs["seq"] != mine["seq"] {
                        diffs.push("result of dispatch_seq + thread-local systems differs".to_string());
                    }
                    if *label == "no-parallel-feature" && theirs["dispatch"] != mine["seq"] {
                        diffs.push("result of dispatch() without the parallel feature differs from the sequential result".to_string());
                    }
                }
                if let Some(d) = diffs.first() {
                    let msg = format!("[{}] {}", label, d);
                    let rp = verif_dir().join("replays").join(format!("{}-{}-seed{}.json", property, name, seed));
                    let _ = std::fs::create_dir_all(rp.parent().unwrap());
                    let v = json!({"property": property, "check": name, "message": msg, "case": plan});
                    let _ = std::fs::write(&rp, serde_json::to_string_pretty(&v).unwrap());
                    violation = Some(Violation {
                        property: property.to_string(),
                        check: name.to_string(),
                        msg,
                        replay: rp.to_string_lossy().to_string(),
                    });
                    break 'cmp;
                }
            }
        }
    }
    SubResult {
        name: name.to_string(),
        rule: rule.to_string(),
        stats,
        violation,
        harness_error,
        wall_s: t0.elapsed().as_secs_f64(),
    }
}
