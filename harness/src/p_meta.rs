//! C17: meta table — exactly the registered types, once each, with the right vtable.

use std::panic::{catch_unwind, AssertUnwindSafe};

use serde::{Deserialize, Serialize};
use serde_json::json;
use shred::{CastFrom, MetaTable, Resource, ResourceId, World};

use crate::build::panic_msg;
use crate::driver::{Fail, Prop, Stats};
use crate::plan::Src;

pub trait Tag {
    fn tag(&self) -> u32;
    fn addr(&self) -> usize;
    fn bump(&mut self) -> u64;
}

pub struct M0;
pub struct M1(pub u8);
pub struct M2(pub u64);
pub struct M3(pub [u64; 16]);
pub struct M4(pub Vec<u64>);
#[repr(align(64))]
pub struct M5(pub u32);
/// implements `CastFrom` wrongly (returns another object's address)
pub struct MW(pub u64);

impl Tag for M0 {
    fn tag(&self) -> u32 {
        100
    }
    fn addr(&self) -> usize {
        self as *const Self as usize
    }
    fn bump(&mut self) -> u64 {
        100
    }
}
impl Tag for M1 {
    fn tag(&self) -> u32 {
        101
    }
    fn addr(&self) -> usize {
        self as *const Self as usize
    }
    fn bump(&mut self) -> u64 {
        self.0 = self.0.wrapping_add(1);
        1000 + self.0 as u64
    }
}
impl Tag for M2 {
    fn tag(&self) -> u32 {
        102
    }
    fn addr(&self) -> usize {
        self as *const Self as usize
    }
    fn bump(&mut self) -> u64 {
        self.0 += 1;
        2000 + self.0
    }
}
impl Tag for M3 {
    fn tag(&self) -> u32 {
        // reads its own payload: a wrong vtable shows
        if self.0.iter().all(|x| *x == 0x33) {
            103
        } else {
            9103
        }
    }
    fn addr(&self) -> usize {
        self as *const Self as usize
    }
    fn bump(&mut self) -> u64 {
        3000 + self.0[15]
    }
}
impl Tag for M4 {
    fn tag(&self) -> u32 {
        if self.0.len() == 4 && self.0.iter().all(|x| *x == 0x44) {
            104
        } else {
            9104
        }
    }
    fn addr(&self) -> usize {
        self as *const Self as usize
    }
    fn bump(&mut self) -> u64 {
        4000 + self.0.len() as u64
    }
}
impl Tag for M5 {
    fn tag(&self) -> u32 {
        if self.0 == 0x55 {
            105
        } else {
            9105
        }
    }
    fn addr(&self) -> usize {
        self as *const Self as usize
    }
    fn bump(&mut self) -> u64 {
        5000 + self.0 as u64
    }
}
impl Tag for MW {
    fn tag(&self) -> u32 {
        199
    }
    fn addr(&self) -> usize {
        self as *const Self as usize
    }
    fn bump(&mut self) -> u64 {
        9999
    }
}

/// sixty-four more implementing types, so that a table can hold far more than 16 (and more than 32
/// and 64) distinct registrations
pub struct MG<const N: usize>(pub u64);
impl<const N: usize> Tag for MG<N> {
    fn tag(&self) -> u32 {
        if self.0 == 0x6000 + N as u64 {
            300 + N as u32
        } else {
            9300
        }
    }
    fn addr(&self) -> usize {
        self as *const Self as usize
    }
    fn bump(&mut self) -> u64 {
        6000 + N as u64
    }
}
unsafe impl<const N: usize> CastFrom<MG<N>> for dyn Tag {
    fn cast(t: *mut MG<N>) -> *mut Self {
        t
    }
}
impl<const N: usize> Mk for MG<N> {
    fn mk() -> Self {
        MG(0x6000 + N as u64)
    }
}

macro_rules! cast_ok {
    ($($T:ty),*) => {$(
        unsafe impl CastFrom<$T> for dyn Tag {
            fn cast(t: *mut $T) -> *mut Self { t }
        }
    )*};
}
cast_ok!(M0, M1, M2, M3, M4, M5);

/// zero-sized, and its `CastFrom` is wrong too
pub struct MWZ;
impl Tag for MWZ {
    fn tag(&self) -> u32 {
        198
    }
    fn addr(&self) -> usize {
        self as *const Self as usize
    }
    fn bump(&mut self) -> u64 {
        9998
    }
}
static OTHER_Z: MWZ = MWZ;
static ANCHOR: u64 = 0;
unsafe impl CastFrom<MWZ> for dyn Tag {
    fn cast(_t: *mut MWZ) -> *mut Self {
        // a different (valid, aligned) address: zero-sized values have addresses too
        let _ = &OTHER_Z;
        &ANCHOR as *const u64 as *mut MWZ
    }
}

static OTHER: MW = MW(7);
unsafe impl CastFrom<MW> for dyn Tag {
    fn cast(_t: *mut MW) -> *mut Self {
        // deliberately wrong: the address of a different object
        &OTHER as *const MW as *mut MW
    }
}

/// a second trait with its own casts: correct for `MG<8>`, address-changing for `M2` (whose cast to
/// `dyn Tag` is correct)
pub trait Tag2 {
    fn tag2(&self) -> u32;
}
impl Tag2 for M2 {
    fn tag2(&self) -> u32 {
        702
    }
}
impl Tag2 for MG<8> {
    fn tag2(&self) -> u32 {
        708
    }
}
static OTHER2: M2 = M2(9);
unsafe impl CastFrom<M2> for dyn Tag2 {
    fn cast(_t: *mut M2) -> *mut Self {
        &OTHER2 as *const M2 as *mut M2
    }
}
unsafe impl CastFrom<MG<8>> for dyn Tag2 {
    fn cast(t: *mut MG<8>) -> *mut Self {
        t
    }
}

pub const NM: usize = 72;
/// the extra const-generic types: indices 8 .. 8 + NEXTRA
const NEXTRA: usize = 64;
const NPLAIN: usize = 6;
const WRONG: u8 = 6;
const WRONG_Z: u8 = 7;
fn is_wrong(t: u8) -> bool {
    t == WRONG || t == WRONG_Z
}

macro_rules! with_m {
    ($t:expr, $T:ident, $body:expr) => {
        match $t {
            0 => {
                type $T = M0;
                $body
            }
            1 => {
                type $T = M1;
                $body
            }
            2 => {
                type $T = M2;
                $body
            }
            3 => {
                type $T = M3;
                $body
            }
            4 => {
                type $T = M4;
                $body
            }
            5 => {
                type $T = M5;
                $body
            }
            6 => {
                type $T = MW;
                $body
            }
            7 => {
                type $T = MWZ;
                $body
            }
            8 => {
                type $T = MG<8>;
                $body
            }
            9 => {
                type $T = MG<9>;
                $body
            }
            10 => {
                type $T = MG<10>;
                $body
            }
            11 => {
                type $T = MG<11>;
                $body
            }
            12 => {
                type $T = MG<12>;
                $body
            }
            13 => {
                type $T = MG<13>;
                $body
            }
            14 => {
                type $T = MG<14>;
                $body
            }
            15 => {
                type $T = MG<15>;
                $body
            }
            16 => {
                type $T = MG<16>;
                $body
            }
            17 => {
                type $T = MG<17>;
                $body
            }
            18 => {
                type $T = MG<18>;
                $body
            }
            19 => {
                type $T = MG<19>;
                $body
            }
            20 => {
                type $T = MG<20>;
                $body
            }
            21 => {
                type $T = MG<21>;
                $body
            }
            22 => {
                type $T = MG<22>;
                $body
            }
            23 => {
                type $T = MG<23>;
                $body
            }
            24 => {
                type $T = MG<24>;
                $body
            }
            25 => {
                type $T = MG<25>;
                $body
            }
            26 => {
                type $T = MG<26>;
                $body
            }
            27 => {
                type $T = MG<27>;
                $body
            }
            28 => {
                type $T = MG<28>;
                $body
            }
            29 => {
                type $T = MG<29>;
                $body
            }
            30 => {
                type $T = MG<30>;
                $body
            }
            31 => {
                type $T = MG<31>;
                $body
            }
            32 => {
                type $T = MG<32>;
                $body
            }
            33 => {
                type $T = MG<33>;
                $body
            }
            34 => {
                type $T = MG<34>;
                $body
            }
            35 => {
                type $T = MG<35>;
                $body
            }
            36 => {
                type $T = MG<36>;
                $body
            }
            37 => {
                type $T = MG<37>;
                $body
            }
            38 => {
                type $T = MG<38>;
                $body
            }
            39 => {
                type $T = MG<39>;
                $body
            }
            40 => {
                type $T = MG<40>;
                $body
            }
            41 => {
                type $T = MG<41>;
                $body
            }
            42 => {
                type $T = MG<42>;
                $body
            }
            43 => {
                type $T = MG<43>;
                $body
            }
            44 => {
                type $T = MG<44>;
                $body
            }
            45 => {
                type $T = MG<45>;
                $body
            }
            46 => {
                type $T = MG<46>;
                $body
            }
            47 => {
                type $T = MG<47>;
                $body
            }
            48 => {
                type $T = MG<48>;
                $body
            }
            49 => {
                type $T = MG<49>;
                $body
            }
            50 => {
                type $T = MG<50>;
                $body
            }
            51 => {
                type $T = MG<51>;
                $body
            }
            52 => {
                type $T = MG<52>;
                $body
            }
            53 => {
                type $T = MG<53>;
                $body
            }
            54 => {
                type $T = MG<54>;
                $body
            }
            55 => {
                type $T = MG<55>;
                $body
            }
            56 => {
                type $T = MG<56>;
                $body
            }
            57 => {
                type $T = MG<57>;
                $body
            }
            58 => {
                type $T = MG<58>;
                $body
            }
            59 => {
                type $T = MG<59>;
                $body
            }
            60 => {
                type $T = MG<60>;
                $body
            }
            61 => {
                type $T = MG<61>;
                $body
            }
            62 => {
                type $T = MG<62>;
                $body
            }
            63 => {
                type $T = MG<63>;
                $body
            }
            64 => {
                type $T = MG<64>;
                $body
            }
            65 => {
                type $T = MG<65>;
                $body
            }
            66 => {
                type $T = MG<66>;
                $body
            }
            67 => {
                type $T = MG<67>;
                $body
            }
            68 => {
                type $T = MG<68>;
                $body
            }
            69 => {
                type $T = MG<69>;
                $body
            }
            70 => {
                type $T = MG<70>;
                $body
            }
            71 => {
                type $T = MG<71>;
                $body
            }
            _ => panic!("harness: meta type index out of range"),
        }
    };
}

trait Mk {
    fn mk() -> Self;
}
impl Mk for M0 {
    fn mk() -> Self {
        M0
    }
}
impl Mk for M1 {
    fn mk() -> Self {
        M1(0)
    }
}
impl Mk for M2 {
    fn mk() -> Self {
        M2(0)
    }
}
impl Mk for M3 {
    fn mk() -> Self {
        M3([0x33; 16])
    }
}
impl Mk for M4 {
    fn mk() -> Self {
        M4(vec![0x44; 4])
    }
}
impl Mk for M5 {
    fn mk() -> Self {
        M5(0x55)
    }
}
impl Mk for MW {
    fn mk() -> Self {
        MW(1)
    }
}
impl Mk for MWZ {
    fn mk() -> Self {
        MWZ
    }
}

fn tag_of(t: u8) -> u32 {
    if t >= 8 {
        return 300 + t as u32;
    }
    [100, 101, 102, 103, 104, 105, 199, 198][t as usize]
}

fn mrid(t: u8, d: u8) -> ResourceId {
    with_m!(t, T, ResourceId::new_with_dynamic_id::<T>(crate::res::dyn_id(if d == 1 { 2 } else { d })))
}

#[derive(Clone, Debug, Serialize, Deserialize, PartialEq)]
pub enum MetaOp {
    Register { t: u8 },
    /// register a run of the extra types (reaches more than 16 distinct registrations)
    RegisterRange { start: u8, n: u8 },
    /// register a run of up to all 64 extra types (tables with more than 32 / 64 distinct types)
    RegisterWide { start: u8, n: u8 },
    /// get (or get_mut) on a standalone value of every implementing type, registered or not
    GetSweep { mutable: bool },
    WorldInsert { t: u8, d: u8 },
    WorldRemove { t: u8, d: u8 },
    /// get on a standalone value
    Get { t: u8 },
    GetMut { t: u8 },
    /// get_mut on the value stored in the world
    GetMutInWorld { t: u8 },
    Iter,
    IterMut,
    /// iterate while a guard on (t, dynamic id 0) is held
    IterHolding { t: u8, excl: bool, iter_mut: bool },
    /// the iterator through its adaptors: 0 = nth(k), 1 = skip(k), 2 = step_by(k + 1); 3..5 = k items
    /// through next(), then the rest through fold / count / last
    IterAdaptor { how: u8, k: u8, iter_mut: bool },
    /// a second table for another trait over a type the first table knows too: `wrong` picks the type
    /// whose cast to that other trait changes the address
    SecondTable { wrong: bool },
}

pub struct C17;

fn outcome<R>(f: impl FnOnce() -> R) -> Result<R, String> {
    catch_unwind(AssertUnwindSafe(f)).map_err(|p| panic_msg(&p))
}

/// what a full pass yields before it ends or panics
fn pass(table: &MetaTable<dyn Tag>, world: &World, mutable: bool) -> (Vec<(u32, usize)>, Option<String>) {
    let mut items = vec![];
    let r = catch_unwind(AssertUnwindSafe(|| {
        if mutable {
            for mut x in table.iter_mut(world) {
                let _ = x.bump();
                items.push((x.tag(), x.addr()));
            }
        } else {
            for x in table.iter(world) {
                items.push((x.tag(), x.addr()));
            }
        }
    }));
    (items, r.err().map(|p| panic_msg(&p)))
}

fn stored_addr(world: &World, t: u8) -> Option<usize> {
    with_m!(t, T, world.try_fetch::<T>().map(|g| &*g as *const T as usize))
}

impl Prop for C17 {
    type Case = Vec<MetaOp>;
    fn name(&self) -> &'static str {
        "c17-model"
    }
    fn property(&self) -> &'static str {
        "C17"
    }
    fn rule(&self) -> &'static str {
        "histories (<= 40 steps) over register::<T_i>() with repeats / insert and remove of 7 implementing types (zero-sized, 1 byte, 8 bytes, 128 bytes, heap-owning, 64-byte aligned, and one whose CastFrom returns a different address, a zero-sized one with the same defect, and 64 const-generic extras registered singly or in runs of up to 64, so that tables hold more than 32 and more than 64 distinct types) at dynamic ids 0 and 1 / sweeps of get or get_mut over a standalone value of every type / get and get_mut on standalone values and on values in the world / full iter and iter_mut passes, also while a shared or exclusive guard on one resource is held; every type's methods read its own payload so a wrong vtable shows; oracle: reference list of types in first-registration order; get* is Some exactly for registered types and the object reports the value's own address and type tag; iteration yields exactly registered and present (dynamic id 0) types, once each, in first-registration order, with the stored value's address; iter panics exactly at a conflictingly borrowed element; any use that resolves the wrong-cast type panics with the CastFrom message; non-trivial = >= 1 repeated registration, >= 1 registered-but-absent type and >= 1 iteration; distinct = history hash"
    }
    fn stream_len(&self) -> usize {
        150
    }
    fn journal(&self) -> bool {
        true
    }
    fn gen(&self, src: &mut Src) -> Vec<MetaOp> {
        let n = src.pick(41);
        let mut ops = vec![];
        for _ in 0..n {
            // the wrong-cast type is rarer: it ends iterations early
            let t = if src.chance(2, 16) {
                if src.chance(8, 16) {
                    WRONG
                } else {
                    WRONG_Z
                }
            } else {
                // the six "interesting" types or one of the twelve extra ones
                let k = src.pick(NPLAIN + 12);
                if k < NPLAIN {
                    k as u8
                } else if src.chance(3, 16) {
                    (8 + src.pick(NEXTRA)) as u8
                } else {
                    (k + 2) as u8
                }
            };
            let d = if src.chance(3, 16) { 1 } else { 0 };
            let op = match src.pick(16) {
                0 | 1 | 2 => MetaOp::Register { t },
                3 => {
                    if src.chance(6, 16) {
                        MetaOp::RegisterRange {
                            start: src.pick(12) as u8,
                            n: 1 + src.pick(12) as u8,
                        }
                    } else if src.chance(5, 16) {
                        MetaOp::RegisterWide {
                            start: src.pick(NEXTRA) as u8,
                            n: 1 + src.pick(NEXTRA) as u8,
                        }
                    } else if src.chance(5, 16) {
                        MetaOp::GetSweep {
                            mutable: src.chance(6, 16),
                        }
                    } else {
                        MetaOp::Register { t }
                    }
                }
                4 | 5 | 6 => MetaOp::WorldInsert { t, d },
                7 => MetaOp::WorldRemove { t, d },
                8 => MetaOp::Get { t },
                9 => MetaOp::GetMut { t },
                10 => MetaOp::GetMutInWorld { t },
                11 => MetaOp::Iter,
                12 => {
                    if src.chance(8, 16) {
                        MetaOp::Iter
                    } else {
                        MetaOp::IterAdaptor {
                            how: src.pick(6) as u8,
                            k: src.pick(4) as u8,
                            iter_mut: src.chance(6, 16),
                        }
                    }
                }
                13 => {
                    if src.chance(12, 16) {
                        MetaOp::IterMut
                    } else {
                        MetaOp::SecondTable {
                            wrong: src.chance(8, 16),
                        }
                    }
                }
                _ => MetaOp::IterHolding {
                    t,
                    excl: src.chance(8, 16),
                    iter_mut: src.chance(6, 16),
                },
            };
            ops.push(op);
        }
        ops
    }
    fn check(&self, ops: &Vec<MetaOp>, _lane: usize, st: &mut Stats) -> Result<(), Fail> {
        let mut world = std::mem::ManuallyDrop::new(World::empty());
        let mut table: MetaTable<dyn Tag> = MetaTable::new();
        let mut order: Vec<u8> = vec![];
        let mut present: std::collections::BTreeSet<(u8, u8)> = Default::default();
        let (mut repeats, mut iters) = (0u64, 0u64);
        let mut absent_registered = false;
        for (step, op) in ops.iter().enumerate() {
            let bad = |what: String| Fail::new(format!("step {} {:?}: {}", step, op, what));
            // expected result of a full pass given an optional held guard
            let expect_pass = |order: &Vec<u8>,
                               present: &std::collections::BTreeSet<(u8, u8)>,
                               world: &World,
                               mutable: bool,
                               held: Option<(u8, bool)>|
             -> (Vec<(u32, usize)>, Option<&'static str>) {
                let mut items = vec![];
                for &t in order {
                    if !present.contains(&(t, 0)) {
                        continue;
                    }
                    if let Some((ht, hexcl)) = held {
                        if ht == t && (mutable || hexcl) {
                            return (items, Some("borrow"));
                        }
                    }
                    if is_wrong(t) {
                        return (items, Some("CastFrom"));
                    }
                    items.push((tag_of(t), stored_addr(world, t).unwrap_or(0)));
                }
                (items, None)
            };
            let compare = |got: (Vec<(u32, usize)>, Option<String>),
                           want: (Vec<(u32, usize)>, Option<&'static str>)|
             -> Result<(), Fail> {
                if got.0 != want.0 {
                    return Err(bad(format!(
                        "iteration yielded (tag, address) {:?}, expected {:?} (registered and present types in first-registration order, each with its own vtable and address)",
                        got.0, want.0
                    )));
                }
                match (&got.1, want.1) {
                    (None, None) => Ok(()),
                    (Some(m), Some("CastFrom")) if m.contains("CastFrom") => Ok(()),
                    (Some(m), Some("borrow")) if m.contains("already") => Ok(()),
                    (g, w) => Err(bad(format!(
                        "iteration ended with {:?}, expected {:?}",
                        g, w
                    ))),
                }
            };
            match op.clone() {
                MetaOp::Register { t } => {
                    with_m!(t, T, table.register::<T>());
                    if order.contains(&t) {
                        repeats += 1;
                    } else {
                        order.push(t);
                    }
                }
                MetaOp::RegisterRange { start, n } | MetaOp::RegisterWide { start, n } => {
                    let m = if matches!(op, MetaOp::RegisterWide { .. }) { NEXTRA as u8 } else { 12 };
                    for k in 0..n {
                        let t = 8 + (start % m + k % m) % m;
                        with_m!(t, T, table.register::<T>());
                        if order.contains(&t) {
                            repeats += 1;
                        } else {
                            order.push(t);
                        }
                    }
                }
                MetaOp::WorldInsert { t, d } => {
                    with_m!(t, T, world.insert_by_id(mrid(t, d), T::mk()));
                    present.insert((t, d));
                }
                MetaOp::WorldRemove { t, d } => {
                    with_m!(t, T, {
                        world.remove_by_id::<T>(mrid(t, d));
                    });
                    present.remove(&(t, d));
                }
                MetaOp::Get { .. } | MetaOp::GetMut { .. } | MetaOp::GetSweep { .. } => {
                    let (ts, mutable): (Vec<u8>, bool) = match op {
                        MetaOp::Get { t } => (vec![*t], false),
                        MetaOp::GetMut { t } => (vec![*t], true),
                        MetaOp::GetSweep { mutable } => ((0..NM as u8).collect(), *mutable),
                        _ => unreachable!(),
                    };
                    if ts.len() > 1 {
                        st.class("get_sweeps_over_all_types");
                    }
                    for t in ts {
                        let r = outcome(|| {
                            with_m!(t, T, {
                                let mut b: Box<T> = Box::new(T::mk());
                                let own = &*b as *const T as usize;
                                if mutable {
                                    let res: &mut dyn Resource = &mut *b;
                                    table.get_mut(res).map(|o| (o.tag(), o.addr(), own))
                                } else {
                                    let res: &dyn Resource = &*b;
                                    table.get(res).map(|o| (o.tag(), o.addr(), own))
                                }
                            })
                        });
                        let registered = order.contains(&t);
                        match (registered, is_wrong(t), r) {
                            (false, _, Ok(None)) => {}
                            (true, true, Err(m)) if m.contains("CastFrom") => {}
                            (true, false, Ok(Some((tag, addr, own)))) => {
                                if tag != tag_of(t) || addr != own {
                                    return Err(bad(format!(
                                        "type {}: the trait object reports tag {} at address {:#x}; the value has tag {} at {:#x}",
                                        t, tag, addr, tag_of(t), own
                                    )));
                                }
                            }
                            (reg, _, r) => {
                                return Err(bad(format!(
                                    "get{} on a value of type {} gave {:?} with registered={}",
                                    if mutable { "_mut" } else { "" },
                                    t,
                                    r.map(|o| o.map(|x| (x.0, x.1 == x.2))),
                                    reg
                                )))
                            }
                        }
                    }
                }
                MetaOp::GetMutInWorld { t } => {
                    let own = stored_addr(&world, t);
                    let r = outcome(|| {
                        world
                            .get_mut_raw(mrid(t, 0))
                            .map(|res| table.get_mut(res).map(|o| (o.tag(), o.addr())))
                    });
                    let registered = order.contains(&t);
                    match (present.contains(&(t, 0)), registered, is_wrong(t), r) {
                        (false, _, _, Ok(None)) => {}
                        (true, false, _, Ok(Some(None))) => {}
                        (true, true, true, Err(m)) if m.contains("CastFrom") => {}
                        (true, true, false, Ok(Some(Some((tag, addr))))) => {
                            if tag != tag_of(t) || Some(addr) != own {
                                return Err(bad(format!(
                                    "get_mut on the stored value reports tag {} at {:#x}; stored value has tag {} at {:?}",
                                    tag, addr, tag_of(t), own
                                )));
                            }
                        }
                        (p, reg, _, r) => {
                            return Err(bad(format!(
                                "get_mut on the stored value gave {:?} (present={}, registered={})",
                                r, p, reg
                            )))
                        }
                    }
                }
                MetaOp::Iter | MetaOp::IterMut => {
                    iters += 1;
                    let mutable = matches!(op, MetaOp::IterMut);
                    let want = expect_pass(&order, &present, &world, mutable, None);
                    let got = pass(&table, &world, mutable);
                    compare(got, want)?;
                }
                MetaOp::IterAdaptor { how, k, iter_mut } => {
                    iters += 1;
                    let (full, err) = expect_pass(&order, &present, &world, iter_mut, None);
                    // only decided when a plain pass would run to its end (no wrong-cast type on the way)
                    if err.is_none() {
                        let k = k as usize;
                        let head: Vec<(u32, usize)> = full.iter().take(k).cloned().collect();
                        let want: Vec<(u32, usize)> = match how % 6 {
                            0 => full.get(k).cloned().into_iter().collect(),
                            1 => full.iter().skip(k).cloned().collect(),
                            2 => full.iter().step_by(k + 1).cloned().collect(),
                            // k items through next(), the rest through a consuming adaptor
                            3 => full.clone(),
                            4 => {
                                let mut v = head.clone();
                                v.push((full.len().saturating_sub(k) as u32, 0));
                                v
                            }
                            _ => {
                                let mut v = head.clone();
                                if full.len() > k {
                                    v.push(*full.last().unwrap());
                                }
                                v
                            }
                        };
                        let r = outcome(|| {
                            let mut got = vec![];
                            macro_rules! drive {
                                ($it:expr) => {
                                    match how % 6 {
                                        0 => {
                                            if let Some(x) = $it.nth(k) {
                                                got.push((x.tag(), x.addr()));
                                            }
                                        }
                                        1 => {
                                            for x in $it.skip(k) {
                                                got.push((x.tag(), x.addr()));
                                            }
                                        }
                                        2 => {
                                            for x in $it.step_by(k + 1) {
                                                got.push((x.tag(), x.addr()));
                                            }
                                        }
                                        m => {
                                            let mut it = $it;
                                            for _ in 0..k {
                                                if let Some(x) = it.next() {
                                                    got.push((x.tag(), x.addr()));
                                                }
                                            }
                                            match m {
                                                3 => {
                                                    let rest = it.fold(vec![], |mut v, x| {
                                                        v.push((x.tag(), x.addr()));
                                                        v
                                                    });
                                                    got.extend(rest);
                                                }
                                                4 => got.push((it.count() as u32, 0)),
                                                _ => {
                                                    if let Some(x) = it.last() {
                                                        got.push((x.tag(), x.addr()));
                                                    }
                                                }
                                            }
                                        }
                                    }
                                };
                            }
                            if iter_mut {
                                drive!(table.iter_mut(&world));
                            } else {
                                drive!(table.iter(&world));
                            }
                            got
                        });
                        match r {
                            Ok(got) if got == want => {}
                            Ok(got) => {
                                return Err(bad(format!(
                                    "the iterator's adaptor yielded {:?}, the registered and present types in order give {:?}",
                                    got, want
                                )))
                            }
                            Err(e) => return Err(bad(format!("iteration panicked: {}", e))),
                        }
                    }
                }
                MetaOp::SecondTable { wrong } => {
                    let r = outcome(|| {
                        let mut t2: MetaTable<dyn Tag2> = MetaTable::new();
                        if wrong {
                            t2.register::<M2>();
                            let v = M2::mk();
                            let r: &dyn Resource = &v;
                            t2.get(r).map(|o| o.tag2())
                        } else {
                            t2.register::<MG<8>>();
                            let v = <MG<8> as Mk>::mk();
                            let r: &dyn Resource = &v;
                            t2.get(r).map(|o| o.tag2())
                        }
                    });
                    match (wrong, r) {
                        (false, Ok(Some(708))) => {}
                        (true, Err(e)) if e.contains("CastFrom") => {}
                        (w, r) => {
                            return Err(bad(format!(
                                "a second table (another trait, {} cast) gave {:?}; expected {}",
                                if w { "address-changing" } else { "correct" },
                                r,
                                if w { "the CastFrom panic" } else { "Some(708)" }
                            )))
                        }
                    }
                }
                MetaOp::IterHolding { t, excl, iter_mut } => {
                    iters += 1;
                    if !present.contains(&(t, 0)) {
                        let want = expect_pass(&order, &present, &world, iter_mut, None);
                        let got = pass(&table, &world, iter_mut);
                        compare(got, want)?;
                    } else {
                        let want = expect_pass(&order, &present, &world, iter_mut, Some((t, excl)));
                        let got = with_m!(t, T, {
                            if excl {
                                let _g = world.try_fetch_mut_by_id::<T>(mrid(t, 0));
                                pass(&table, &world, iter_mut)
                            } else {
                                let _g = world.try_fetch_by_id::<T>(mrid(t, 0));
                                pass(&table, &world, iter_mut)
                            }
                        });
                        compare(got, want)?;
                    }
                }
            }
            if order.iter().any(|t| !present.contains(&(*t, 0))) {
                absent_registered = true;
            }
            // nothing may stay borrowed
            for &(t, d) in present.iter() {
                {
                    let c = crate::res::probe_id(&world, mrid(t, d));
                    if c == crate::res::Cell::Shared || c == crate::res::Cell::Excl {
                        return Err(bad(format!(
                            "resource (type {}, dynamic id {}) is still borrowed after the step",
                            t, d
                        )));
                    }
                }
            }
        }
        if order.len() >= 16 {
            st.class("tables_with>=16_distinct_types");
        }
        if order.len() > 32 {
            st.class("tables_with>32_distinct_types");
        }
        if order.len() > 64 {
            st.class("tables_with>64_distinct_types");
        }
        st.class_n("repeated_registrations", repeats);
        st.class_n("iterations", iters);
        if repeats > 0 && absent_registered && iters > 0 {
            st.nontrivial(ops, || json!({"first_registration_order": order}));
        }
        drop(std::mem::ManuallyDrop::into_inner(world));
        Ok(())
    }
    fn simplify(&self, case: &Vec<MetaOp>) -> Vec<Vec<MetaOp>> {
        let mut out = vec![];
        for i in (0..case.len()).rev() {
            let mut c = case.clone();
            c.remove(i);
            out.push(c);
        }
        out
    }
}

// ------------------------------------------------------------------------------------------------
// concurrent lookups: a meta table is a shared (`Sync`) resource that systems of one stage use at
// the same time, each for its own types

#[derive(Clone, Debug, Serialize, Deserialize, PartialEq)]
pub enum ConcOp {
    /// `get` on a value the thread owns
    Get { t: u8 },
    GetMut { t: u8 },
    /// `get` on the value stored in the world (through a shared fetch)
    GetInWorld { t: u8 },
    /// a full shared iteration
    Iter,
}

#[derive(Clone, Debug, Serialize, Deserialize)]
pub struct C17ConcCase {
    pub registered: Vec<u8>,
    pub present: Vec<u8>,
    pub scripts: Vec<Vec<ConcOp>>,
    pub reps: u16,
}

pub struct C17Conc;

/// the thirteen implementing types that share one layout (a u64): a lookup that pairs a value with
/// another type's vtable reports a wrong tag instead of reading foreign memory
fn conc_type(k: usize) -> u8 {
    if k == 0 {
        2
    } else {
        (7 + k) as u8
    }
}

impl Prop for C17Conc {
    type Case = C17ConcCase;
    fn name(&self) -> &'static str {
        "c17-concurrent"
    }
    fn property(&self) -> &'static str {
        "C17"
    }
    fn rule(&self) -> &'static str {
        "one table (generated registration order with repeats over 13 same-layout implementing types) and one world (generated subset present) shared by 2..8 real threads; every thread repeats its own generated script of get / get_mut on values it owns, get on values in the world and full shared iterations 50..400 times, all threads released together; nothing mutates the table or the world, so every single result has the sequential oracle: get* is Some exactly for registered types and reports the value's own address and type tag, iteration yields the registered and present types once each in first-registration order with the stored addresses; non-trivial = >= 2 threads whose scripts look up different types; distinct = case hash"
    }
    fn stream_len(&self) -> usize {
        120
    }
    fn journal(&self) -> bool {
        true
    }
    fn max_shrink_iters(&self) -> u32 {
        40
    }
    fn gen(&self, src: &mut Src) -> C17ConcCase {
        let nreg = 1 + src.pick(16);
        let registered = (0..nreg).map(|_| conc_type(src.pick(13))).collect();
        let npres = src.pick(10);
        let present = (0..npres).map(|_| conc_type(src.pick(13))).collect();
        let nthreads = 2 + src.pick(7);
        let mut scripts = vec![];
        for _ in 0..nthreads {
            let n = 1 + src.pick(6);
            let mut s = vec![];
            for _ in 0..n {
                let t = conc_type(src.pick(13));
                s.push(match src.pick(8) {
                    0 | 1 | 2 => ConcOp::Get { t },
                    3 | 4 => ConcOp::GetMut { t },
                    5 | 6 => ConcOp::GetInWorld { t },
                    _ => ConcOp::Iter,
                });
            }
            scripts.push(s);
        }
        let reps = [50u16, 100, 200, 400][src.pick(4)];
        C17ConcCase {
            registered,
            present,
            scripts,
            reps,
        }
    }
    fn check(&self, case: &C17ConcCase, _lane: usize, st: &mut Stats) -> Result<(), Fail> {
        use std::sync::atomic::{AtomicBool, AtomicUsize, Ordering::SeqCst};
        use std::sync::Mutex;
        let ok_t = |t: u8| t == 2 || (8..NM as u8).contains(&t);
        let mut table: MetaTable<dyn Tag> = MetaTable::new();
        let mut order: Vec<u8> = vec![];
        for &t in case.registered.iter().filter(|t| ok_t(**t)) {
            with_m!(t, T, table.register::<T>());
            if !order.contains(&t) {
                order.push(t);
            }
        }
        let mut world = World::empty();
        let mut present: Vec<u8> = vec![];
        for &t in case.present.iter().filter(|t| ok_t(**t)) {
            with_m!(t, T, world.insert(T::mk()));
            if !present.contains(&t) {
                present.push(t);
            }
        }
        let expected_iter: Vec<(u32, usize)> = order
            .iter()
            .filter(|t| present.contains(t))
            .map(|t| (tag_of(*t), stored_addr(&world, *t).unwrap_or(0)))
            .collect();
        let scripts: Vec<Vec<ConcOp>> = case
            .scripts
            .iter()
            .take(8)
            .map(|s| {
                s.iter()
                    .filter(|o| match o {
                        ConcOp::Get { t } | ConcOp::GetMut { t } | ConcOp::GetInWorld { t } => ok_t(*t),
                        ConcOp::Iter => true,
                    })
                    .cloned()
                    .collect()
            })
            .collect();
        let n = scripts.len();
        if n == 0 {
            return Ok(());
        }
        let reps = case.reps.clamp(1, 400) as usize;
        let failure: Mutex<Option<String>> = Mutex::new(None);
        let stop = AtomicBool::new(false);
        let arrived = AtomicUsize::new(0);
        let lookups = AtomicUsize::new(0);
        let (table, world, order, expected_iter, present) = (&table, &world, &order, &expected_iter, &present);
        std::thread::scope(|sc| {
            for (ti, script) in scripts.iter().enumerate() {
                let (failure, stop, arrived, lookups) = (&failure, &stop, &arrived, &lookups);
                sc.spawn(move || {
                    let r = catch_unwind(AssertUnwindSafe(|| {
                        arrived.fetch_add(1, SeqCst);
                        let t0 = std::time::Instant::now();
                        while arrived.load(SeqCst) < n && t0.elapsed() < std::time::Duration::from_secs(5) {
                            std::hint::spin_loop();
                        }
                        for rep in 0..reps {
                            if stop.load(SeqCst) {
                                return;
                            }
                            for (oi, op) in script.iter().enumerate() {
                                let bad = |what: String| {
                                    format!("thread {} repetition {} op {} {:?}: {}", ti, rep, oi, op, what)
                                };
                                let res: Result<(), String> = match op.clone() {
                                    ConcOp::Get { t } | ConcOp::GetMut { t } => {
                                        let mutable = matches!(op, ConcOp::GetMut { .. });
                                        let got = with_m!(t, T, {
                                            let mut b: Box<T> = Box::new(T::mk());
                                            let own = &*b as *const T as usize;
                                            if mutable {
                                                let r: &mut dyn Resource = &mut *b;
                                                table.get_mut(r).map(|o| (o.tag(), o.addr(), own))
                                            } else {
                                                let r: &dyn Resource = &*b;
                                                table.get(r).map(|o| (o.tag(), o.addr(), own))
                                            }
                                        });
                                        match (order.contains(&t), got) {
                                            (false, None) => Ok(()),
                                            (true, Some((tag, addr, own))) if tag == tag_of(t) && addr == own => Ok(()),
                                            (reg, got) => Err(bad(format!(
                                                "registered={}, result (tag, address, value's own address) = {:?}, expected tag {}",
                                                reg, got, tag_of(t)
                                            ))),
                                        }
                                    }
                                    ConcOp::GetInWorld { t } => {
                                        let got = with_m!(t, T, {
                                            world.try_fetch::<T>().map(|g| {
                                                let own = &*g as *const T as usize;
                                                let r: &dyn Resource = &*g;
                                                table.get(r).map(|o| (o.tag(), o.addr(), own))
                                            })
                                        });
                                        match (present.contains(&t), order.contains(&t), got) {
                                            (false, _, None) => Ok(()),
                                            (true, false, Some(None)) => Ok(()),
                                            (true, true, Some(Some((tag, addr, own)))) if tag == tag_of(t) && addr == own => Ok(()),
                                            (p, reg, got) => Err(bad(format!(
                                                "present={}, registered={}, result = {:?}, expected tag {}",
                                                p, reg, got, tag_of(t)
                                            ))),
                                        }
                                    }
                                    ConcOp::Iter => {
                                        let got: Vec<(u32, usize)> =
                                            table.iter(world).map(|x| (x.tag(), x.addr())).collect();
                                        if &got == expected_iter {
                                            Ok(())
                                        } else {
                                            Err(bad(format!(
                                                "iteration yielded (tag, address) {:?}, expected {:?}",
                                                got, expected_iter
                                            )))
                                        }
                                    }
                                };
                                lookups.fetch_add(1, SeqCst);
                                if let Err(e) = res {
                                    stop.store(true, SeqCst);
                                    let mut f = failure.lock().unwrap();
                                    if f.is_none() {
                                        *f = Some(e);
                                    }
                                    return;
                                }
                            }
                        }
                    }));
                    if let Err(p) = r {
                        stop.store(true, SeqCst);
                        let mut f = failure.lock().unwrap();
                        if f.is_none() {
                            *f = Some(format!("thread {} panicked: {}", ti, panic_msg(&p)));
                        }
                    }
                });
            }
        });
        st.eval((lookups.load(SeqCst) as u64).saturating_sub(1));
        if let Some(e) = failure.into_inner().unwrap() {
            return Err(Fail::new(format!(
                "{} (table and world are shared read-only by {} threads)",
                e, n
            )));
        }
        let types_of = |s: &Vec<ConcOp>| -> std::collections::BTreeSet<u8> {
            s.iter()
                .filter_map(|o| match o {
                    ConcOp::Get { t } | ConcOp::GetMut { t } | ConcOp::GetInWorld { t } => Some(*t),
                    ConcOp::Iter => None,
                })
                .collect()
        };
        let sets: Vec<_> = scripts.iter().map(types_of).collect();
        st.class_n("threads", n as u64);
        if sets.iter().any(|a| sets.iter().any(|b| !a.is_empty() && !b.is_empty() && a != b)) {
            st.nontrivial(case, || json!({"threads": n, "reps": reps, "registered": order}));
        }
        Ok(())
    }
    fn simplify(&self, case: &C17ConcCase) -> Vec<C17ConcCase> {
        let mut out = vec![];
        for i in (0..case.scripts.len()).rev() {
            if case.scripts.len() > 2 {
                let mut c = case.clone();
                c.scripts.remove(i);
                out.push(c);
            }
        }
        for i in 0..case.scripts.len() {
            for j in (0..case.scripts[i].len()).rev() {
                if case.scripts[i].len() > 1 {
                    let mut c = case.clone();
                    c.scripts[i].remove(j);
                    out.push(c);
                }
            }
        }
        out
    }
}
