//! History-level sub-checks: generated plan x schedule x pool size x entry point, executed on
//! real threads under the conductor; oracles over the observed event history.

use std::collections::BTreeMap;
use std::time::Duration;

use serde::{Deserialize, Serialize};
use serde_json::json;

use crate::build::{build_plan, pool, BuildOpts, Built};
use crate::conductor::Strategy;
use crate::driver::{Fail, Prop, Stats};
use crate::exec::*;
use crate::hsys::Event;
use crate::oracles;
use crate::plan::{gen_plan, simplify_plan, Ctl, GenCfg, Plan, Src};
use std::sync::atomic::Ordering::SeqCst;

#[derive(Clone, Debug, Serialize, Deserialize)]
pub struct SchedCase {
    pub plan: Plan,
    pub schedule: Vec<u16>,
    /// 0 random linear extension, 1 maximal overlap, 2 free run with jitter, 3 all interleavings
    pub strategy: u8,
    pub threads: u8,
    pub entry: Entry,
    pub repeats: u8,
}

#[derive(Clone, Copy, PartialEq, Eq)]
pub enum Want {
    /// C01-B: no escaping panic, conflicting windows disjoint
    Isolation,
    /// C02-B
    Deps,
    /// C03-B
    Barriers,
    /// C04: run counters
    Counts,
    /// C05: parallel result == sequential result
    Differential,
    /// C12
    ThreadLocal,
    /// C07: inner dispatches of a batch do not run into each other
    InnerSequence,
}

pub struct SchedProp {
    pub property: &'static str,
    pub name: &'static str,
    pub rule: &'static str,
    pub cfg: GenCfg,
    pub wants: Vec<Want>,
    pub entries: Vec<Entry>,
    pub thread_choices: Vec<u8>,
    /// allowed strategies
    pub strategies: Vec<u8>,
    pub max_repeats: u8,
    pub nontrivial: fn(&Built) -> bool,
    pub dfs_limit: usize,
}

pub const DEADLINE: Duration = Duration::from_millis(4000);

fn by_call(log: &[Event]) -> BTreeMap<u32, Vec<Event>> {
    let mut m: BTreeMap<u32, Vec<Event>> = BTreeMap::new();
    for e in log {
        m.entry(e.call).or_default().push(e.clone());
    }
    m
}

pub fn has_multi(b: &Built) -> bool {
    b.flat
        .sys
        .iter()
        .any(|s| matches!(s.ctl, Some(Ctl::Multi { .. })))
}

pub fn has_tl_in_batch(b: &Built) -> bool {
    b.flat.sys.iter().any(|s| s.is_tl && s.parent.is_some())
}

/// KF2 can only bite when a thread-local system inside a batch declares something that conflicts
/// with a system outside the batches that enclose it (its access is not part of the batch's union)
pub fn kf2_applicable(b: &Built) -> bool {
    let f = &b.flat;
    for t in f.sys.iter().filter(|s| s.is_tl && s.parent.is_some()) {
        let anc = f.ancestors(t.idx);
        for x in &f.sys {
            if x.idx == t.idx || anc.contains(&x.idx) {
                continue;
            }
            // x lives outside the innermost batch around t
            if f.ancestors(x.idx).contains(&anc[0]) {
                continue;
            }
            if x.is_batch {
                // another batch: what its controller declares (its inner systems are visited on
                // their own)
                if crate::plan::conflict_sets(&t.acc_r, &t.acc_w, &x.own_r, &x.own_w) {
                    return true;
                }
                continue;
            }
            if f.conflict(t.idx, x.idx) {
                return true;
            }
        }
    }
    false
}

fn set_jitter(b: &Built, schedule: &[u16]) {
    let n = b.flat.sys.len();
    for i in 0..n {
        let a = schedule.get(2 * i).cloned().unwrap_or(0) % 6;
        let c = schedule.get(2 * i + 1).cloned().unwrap_or(0) % 6;
        b.ctx.jitter_begin[i].store(a as u32, SeqCst);
        b.ctx.jitter_run[i].store(c as u32, SeqCst);
    }
    // in half of the free runs one generated system is much slower than its running-time hint says
    // (a few milliseconds inside run, in every repetition)
    if n > 0 {
        let pick = schedule.last().cloned().unwrap_or(0) as usize;
        if pick % 2 == 1 {
            b.ctx.jitter_run[(pick / 2) % n].store(1500, SeqCst);
        }
    }
}

impl SchedProp {
    fn oracles_on_call(
        &self,
        b: &Built,
        log: &[Event],
        entry: Entry,
        caller: u64,
    ) -> Result<(), Fail> {
        let mut wins = windows(&b.flat, log);
        close_multi_windows(&b.flat, &mut wins);
        for w in &self.wants {
            match w {
                Want::Isolation => check_no_overlap(&b.flat, &wins)?,
                Want::Deps => check_dep_order(&b.flat, &wins)?,
                Want::Barriers => check_barrier_order(&b.flat, &wins)?,
                Want::ThreadLocal => {
                    check_thread_local(&b.flat, &wins, caller, if entry.runs_tl() { 1 } else { 0 })?
                }
                Want::InnerSequence => check_inner_sequence(&b.flat, &wins)?,
                _ => {}
            }
        }
        Ok(())
    }

    /// one (possibly repeated) execution under `strategy`; returns the decision trace of the first call
    fn execute(
        &self,
        b: &mut Built,
        case: &SchedCase,
        strategy: Option<Strategy>,
        st: &mut Stats,
    ) -> Result<Vec<(usize, usize)>, Fail> {
        let world = fresh_world();
        b.ctx.reset_states();
        b.ctx.reset_counters();
        let mut first_trace = vec![];
        let mut last_log: Vec<Event> = vec![];
        let repeats = case.repeats.max(1);
        let mut ord_calls = 0u32;
        let mut tl_calls = 0u32;
        for rep in 0..repeats {
            let out = run_call(b, &world, case.entry, strategy.clone(), DEADLINE);
            st.eval(0);
            if let Some(p) = &out.panic {
                let msg = describe_panic(p);
                let borrow = msg.contains("already") && msg.contains("borrowed");
                let key = if borrow && kf2_applicable(b) {
                    "borrow-panic-with-tl-in-batch"
                } else if borrow {
                    "borrow-panic"
                } else {
                    "panic"
                };
                return Err(Fail::keyed(
                    key,
                    format!(
                        "dispatch {} of systems that fetch only what they declared panicked: {}",
                        rep, msg
                    ),
                ));
            }
            if let Some(r) = &out.report {
                if r.abandoned {
                    st.class("schedule_abandoned");
                }
                if r.deviated {
                    st.class("left_documented_discipline");
                }
                if r.fallback_grants > 0 {
                    st.class("schedule_fallback_grants");
                }
                if rep == 0 {
                    first_trace = r.trace.clone();
                }
            }
            if case.entry.runs_ordinary() {
                ord_calls += 1;
            }
            if case.entry.runs_tl() {
                tl_calls += 1;
            }
            for (_, evs) in by_call(&out.log) {
                self.oracles_on_call(b, &evs, case.entry, out.caller_thread)?;
            }
            last_log = out.log.clone();
            check_all_free(&world)?;
        }
        if self.wants.contains(&Want::Counts) {
            let exp = expected_runs(&b.flat, ord_calls, tl_calls);
            if let Err(f) = check_counts(&b.flat, &b.ctx.runs(), &exp) {
                // diagnostics for the report: what the counters and the last call's history say
                let inner: Vec<u32> = b.ctx.inner_dispatches.iter().map(|c| c.load(SeqCst)).collect();
                let hist: Vec<String> = last_log
                    .iter()
                    .map(|e| format!("{}:{:?}@{}/w{}", e.sys, e.kind, e.thread, e.worker))
                    .collect();
                return Err(Fail {
                    msg: format!(
                        "{} [runs {:?}, expected {:?}, inner dispatches {:?}, phase {}, last call history: {}]",
                        f.msg,
                        b.ctx.runs(),
                        exp,
                        inner,
                        b.ctx.phase(),
                        hist.join(" ")
                    ),
                    key: f.key,
                });
            }
        }
        if self.wants.contains(&Want::Differential) {
            let par_world = res::world_digest(&world);
            let par_states = b.ctx.states();
            let w2 = fresh_world();
            b.ctx.reset_states();
            b.ctx.reset_counters();
            let seq_entry = if case.entry.runs_tl() {
                Entry::SeqTl
            } else {
                Entry::Seq
            };
            for _ in 0..repeats {
                let out = run_call(b, &w2, seq_entry, None, DEADLINE);
                if let Some(p) = &out.panic {
                    return Err(Fail::keyed(
                        "seq-panic",
                        format!("sequential reference dispatch panicked: {}", describe_panic(p)),
                    ));
                }
            }
            let seq_world = res::world_digest(&w2);
            let seq_states = b.ctx.states();
            if par_world != seq_world {
                let diff: Vec<String> = par_world
                    .iter()
                    .zip(seq_world.iter())
                    .filter(|(a, c)| a != c)
                    .map(|(a, _)| format!("{:?}", a.0))
                    .collect();
                return Err(Fail::new(format!(
                    "world after parallel dispatch differs from world after sequential dispatch in resources {}",
                    diff.join(", ")
                )));
            }
            if par_states != seq_states {
                let diff: Vec<String> = (0..par_states.len())
                    .filter(|i| par_states[*i] != seq_states[*i])
                    .map(|i| b.flat.sys[i].sid())
                    .collect();
                return Err(Fail::new(format!(
                    "system states after parallel dispatch differ from sequential dispatch for systems {}",
                    diff.join(", ")
                )));
            }
        }
        Ok(first_trace)
    }
}

use crate::res;

impl Prop for SchedProp {
    type Case = SchedCase;
    fn name(&self) -> &'static str {
        self.name
    }
    fn property(&self) -> &'static str {
        self.property
    }
    fn rule(&self) -> &'static str {
        self.rule
    }
    fn stream_len(&self) -> usize {
        700
    }
    fn gen(&self, src: &mut Src) -> SchedCase {
        let strategy = self.strategies[src.pick(self.strategies.len())];
        let threads = self.thread_choices[src.pick(self.thread_choices.len())];
        let entry = self.entries[src.pick(self.entries.len())];
        let repeats = 1 + src.pick(self.max_repeats as usize) as u8;
        let plan = gen_plan(src, &self.cfg);
        let schedule: Vec<u16> = (0..96).map(|_| src.raw()).collect();
        SchedCase {
            plan,
            schedule,
            strategy,
            threads,
            entry,
            repeats,
        }
    }

    fn check(&self, case: &SchedCase, lane: usize, st: &mut Stats) -> Result<(), Fail> {
        let threads = (case.threads as usize).clamp(1, 16);
        // thread choice 0: no pool is given to the builder, `build()` creates the default one (as many
        // threads as the machine has cores); such cases run without schedule control
        let opts = BuildOpts {
            no_pool: case.threads == 0,
            ..BuildOpts::default()
        };
        if opts.no_pool {
            st.class("default_pool");
        }
        let mut b = build_plan(&case.plan, pool(lane, threads), &opts)
            .map_err(|e| Fail::keyed("build-or-identify", e))?;
        oracles::check_complete(&b.flat, &b.layouts)?;
        let conc = concurrency(&b.flat, &b.layouts, 0);
        let controllable = conc <= threads && !has_multi(&b) && case.entry.parallel() && !opts.no_pool;
        let mut strategy = case.strategy;
        if !controllable && strategy != 2 {
            strategy = 2;
            st.class("fell_back_to_free_run");
        }
        st.class(&format!("strategy_{}", strategy));
        if !opts.no_pool {
            st.class(&format!("threads_{}", threads));
        }
        st.class(&format!("entry_{:?}", case.entry));
        if conc >= 2 {
            st.class("plans_concurrency>=2");
        }
        if conc >= 4 {
            st.class("plans_concurrency>=4");
        }
        match strategy {
            2 => {
                set_jitter(&b, &case.schedule);
                self.execute(&mut b, case, None, st)?;
            }
            3 => {
                // depth-first enumeration of all decision sequences
                let mut prefix: Vec<usize> = vec![];
                let mut runs = 0usize;
                let mut complete = false;
                loop {
                    let trace =
                        self.execute(&mut b, case, Some(Strategy::Exact(prefix.clone())), st)?;
                    runs += 1;
                    // next sequence: bump the last position that still has an untried alternative
                    let mut t: Vec<(usize, usize)> = trace;
                    loop {
                        match t.pop() {
                            None => {
                                complete = true;
                                break;
                            }
                            Some((k, n)) => {
                                if k + 1 < n {
                                    prefix = t.iter().map(|x| x.0).collect();
                                    prefix.push(k + 1);
                                    break;
                                }
                            }
                        }
                    }
                    if complete || runs >= self.dfs_limit {
                        break;
                    }
                }
                st.class_n("dfs_runs", runs as u64);
                if complete {
                    st.exhaustive_plans += 1;
                    st.class("plans_all_interleavings");
                } else {
                    st.class("plans_dfs_cut_off");
                }
            }
            1 => {
                self.execute(
                    &mut b,
                    case,
                    Some(Strategy::MaxOverlap(case.schedule.clone())),
                    st,
                )?;
            }
            _ => {
                self.execute(&mut b, case, Some(Strategy::Mapped(case.schedule.clone())), st)?;
            }
        }
        if (self.nontrivial)(&b) {
            st.nontrivial(case, || {
                json!({"layout": oracles::describe(&b.flat, &b.layouts), "concurrency": conc})
            });
        }
        Ok(())
    }

    fn simplify(&self, case: &SchedCase) -> Vec<SchedCase> {
        let mut out: Vec<SchedCase> = simplify_plan(&case.plan)
            .into_iter()
            .map(|p| SchedCase {
                plan: p,
                ..case.clone()
            })
            .collect();
        if case.repeats > 1 {
            out.push(SchedCase {
                repeats: 1,
                ..case.clone()
            });
        }
        if case.schedule.iter().any(|x| *x != 0) {
            out.push(SchedCase {
                schedule: vec![0; case.schedule.len()],
                ..case.clone()
            });
        }
        out
    }
}

// ---- non-triviality rules -----------------------------------------------------------------------

pub fn nt_isolation(b: &Built) -> bool {
    let wide = b
        .layouts
        .by_bid
        .values()
        .any(|l| l.stages.iter().any(|s| s.len() >= 2));
    let mut conflict = false;
    for bi in &b.flat.builders {
        for (i, a) in bi.members.iter().enumerate() {
            for c in &bi.members[i + 1..] {
                conflict |= b.flat.conflict(*a, *c);
            }
        }
    }
    wide && conflict
}

pub fn nt_deps(b: &Built) -> bool {
    b.flat
        .sys
        .iter()
        .any(|s| s.deps.iter().any(|d| !b.flat.conflict(s.idx, *d)))
}

pub fn nt_barriers(b: &Built) -> bool {
    for bi in &b.flat.builders {
        for &x in &bi.members {
            for &y in &bi.members {
                if b.flat.sys[x].seg < b.flat.sys[y].seg
                    && !b.flat.conflict(x, y)
                    && !b.flat.deps_star(y).contains(&x)
                {
                    return true;
                }
            }
        }
    }
    false
}

pub fn nt_counts(b: &Built) -> bool {
    b.layouts
        .by_bid
        .values()
        .any(|l| l.stages.iter().flatten().any(|g| g.len() >= 3) || l.stages.len() >= 8)
        || b.flat.sys.iter().any(|s| {
            s.is_batch && s.ctl.as_ref().map(|c| c.times()).unwrap_or(0) >= 2 && s.inner_bid.is_some()
        })
}

pub fn nt_differential(b: &Built) -> bool {
    // >= 2 systems side by side and >= 1 resource written by >= 2 systems
    let side = b
        .layouts
        .by_bid
        .values()
        .any(|l| l.stages.iter().any(|s| s.len() >= 2));
    let mut writers: BTreeMap<crate::res::Res, usize> = BTreeMap::new();
    for s in &b.flat.sys {
        if !s.is_batch {
            for w in &s.own_w {
                *writers.entry(*w).or_insert(0) += 1;
            }
        }
    }
    side && writers.values().any(|n| *n >= 2)
}

pub fn nt_batch(b: &Built) -> bool {
    let (a, c) = crate::p_layout::c07_interesting(b);
    a || c
}

pub fn nt_thread_local(b: &Built) -> bool {
    let bi = &b.flat.builders[0];
    bi.tls.len() >= 2 && bi.members.len() >= 2
}
