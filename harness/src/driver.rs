//! Generic driver: proptest-generated choice streams -> case -> oracle, across lanes; shrinking
//! (proptest on the stream, then structural on the case); known-finding filter; evidence; replay.

use std::collections::{BTreeMap, BTreeSet};
use std::hash::{Hash, Hasher};
use std::panic::{catch_unwind, AssertUnwindSafe};
use std::sync::atomic::{AtomicBool, Ordering::SeqCst};
use std::time::Instant;

use proptest::collection::vec as pvec;
use proptest::prelude::any;
use proptest::test_runner::{Config, RngSeed, TestCaseError, TestError, TestRunner};
use serde::{de::DeserializeOwned, Serialize};
use serde_json::{json, Value};

use crate::plan::Src;

#[derive(Clone, Debug)]
pub struct Fail {
    pub msg: String,
    /// signature used to match the known-findings file
    pub key: Option<String>,
}

impl Fail {
    pub fn new(msg: impl Into<String>) -> Fail {
        Fail {
            msg: msg.into(),
            key: None,
        }
    }
    pub fn keyed(key: &str, msg: impl Into<String>) -> Fail {
        Fail {
            msg: msg.into(),
            key: Some(key.to_string()),
        }
    }
}

#[derive(Default, Clone)]
pub struct Stats {
    pub classes: BTreeMap<String, u64>,
    pub nontrivial: BTreeSet<u64>,
    pub samples: Vec<Value>,
    pub evaluations: u64,
    pub known_hits: BTreeMap<String, u64>,
    pub exhaustive_plans: u64,
    pub notes: BTreeSet<String>,
}

impl Stats {
    pub fn class(&mut self, name: &str) {
        *self.classes.entry(name.to_string()).or_insert(0) += 1;
    }
    pub fn class_n(&mut self, name: &str, n: u64) {
        *self.classes.entry(name.to_string()).or_insert(0) += n;
    }
    pub fn eval(&mut self, n: u64) {
        self.evaluations += n;
    }
    /// record a non-trivial case by the hash of its canonical form; keeps a few samples
    pub fn nontrivial<T: Serialize>(&mut self, case: &T, extra: impl FnOnce() -> Value) {
        let s = serde_json::to_string(case).unwrap_or_default();
        let mut h = std::collections::hash_map::DefaultHasher::new();
        s.hash(&mut h);
        let fresh = self.nontrivial.insert(h.finish());
        if fresh && self.samples.len() < 2 && s.len() < 6000 {
            let mut v = json!({ "case": serde_json::from_str::<Value>(&s).unwrap_or(Value::Null) });
            if let Value::Object(m) = &mut v {
                m.insert("observed".into(), extra());
            }
            self.samples.push(v);
        }
    }
    pub fn merge(&mut self, o: Stats) {
        for (k, v) in o.classes {
            *self.classes.entry(k).or_insert(0) += v;
        }
        self.nontrivial.extend(o.nontrivial);
        for s in o.samples {
            if self.samples.len() < 4 {
                self.samples.push(s);
            }
        }
        self.evaluations += o.evaluations;
        for (k, v) in o.known_hits {
            *self.known_hits.entry(k).or_insert(0) += v;
        }
        self.exhaustive_plans += o.exhaustive_plans;
        self.notes.extend(o.notes);
    }
}

pub trait Prop: Sync {
    type Case: Clone + Serialize + DeserializeOwned + Send + std::fmt::Debug;
    /// sub-check name, unique across the harness (used in replay files)
    fn name(&self) -> &'static str;
    fn property(&self) -> &'static str;
    fn rule(&self) -> &'static str;
    fn gen(&self, src: &mut Src) -> Self::Case;
    fn check(&self, case: &Self::Case, lane: usize, st: &mut Stats) -> Result<(), Fail>;
    fn simplify(&self, _case: &Self::Case) -> Vec<Self::Case> {
        vec![]
    }
    fn stream_len(&self) -> usize {
        600
    }
    /// write every case to a per-lane journal file before running it, so that a case that takes
    /// the whole process down (memory corruption in the code under test) can still be named
    fn journal(&self) -> bool {
        false
    }
    fn max_shrink_iters(&self) -> u32 {
        1500
    }
    /// number of candidates the structural minimiser may try
    fn minimise_budget(&self) -> usize {
        3000
    }
}

/// wall-clock bound on the minimisation of one failure (both phases together)
pub const SHRINK_WALL: std::time::Duration = std::time::Duration::from_secs(150);

pub fn journal_path(property: &str, check: &str, lane: usize) -> std::path::PathBuf {
    verif_dir()
        .join("target")
        .join("journal")
        .join(format!("{}-{}-lane{}.json", property, check, lane))
}

// ------------------------------------------------------------------------------------------------
// known findings

#[derive(Clone, Debug, Default)]
pub struct Known {
    /// (property, key) -> description
    pub entries: BTreeMap<(String, String), String>,
}

impl Known {
    pub fn load_cached() -> &'static Known {
        static K: std::sync::OnceLock<Known> = std::sync::OnceLock::new();
        K.get_or_init(Known::load)
    }
    pub fn load() -> Known {
        let mut k = Known::default();
        let path = verif_dir().join("KNOWN_FINDINGS.txt");
        if let Ok(text) = std::fs::read_to_string(path) {
            for line in text.lines() {
                let line = line.trim();
                if let Some(rest) = line.strip_prefix("known:") {
                    let mut prop = None;
                    let mut key = None;
                    let mut desc = vec![];
                    for tok in rest.split_whitespace() {
                        if let Some(p) = tok.strip_prefix("property=") {
                            if prop.is_none() {
                                prop = Some(p.to_string());
                                continue;
                            }
                        }
                        if let Some(p) = tok.strip_prefix("key=") {
                            if key.is_none() {
                                key = Some(p.to_string());
                                continue;
                            }
                        }
                        desc.push(tok);
                    }
                    if let (Some(p), Some(k2)) = (prop, key) {
                        k.entries.insert((p, k2), desc.join(" "));
                    }
                }
            }
        }
        k
    }
    pub fn matches(&self, property: &str, f: &Fail) -> Option<String> {
        let key = f.key.as_ref()?;
        if self.entries.contains_key(&(property.to_string(), key.clone())) {
            Some(key.clone())
        } else {
            None
        }
    }
}

pub fn verif_dir() -> std::path::PathBuf {
    std::env::var("VERIF_DIR")
        .map(std::path::PathBuf::from)
        .unwrap_or_else(|_| std::path::PathBuf::from("/verif"))
}

// ------------------------------------------------------------------------------------------------

pub struct Violation {
    pub property: String,
    pub check: String,
    pub msg: String,
    pub replay: String,
}

pub struct SubResult {
    pub name: String,
    pub rule: String,
    pub stats: Stats,
    pub violation: Option<Violation>,
    pub harness_error: Option<String>,
    pub wall_s: f64,
}

/// Runs `check` and converts a panic of the harness itself into a harness error.
fn guarded_check<P: Prop>(
    p: &P,
    case: &P::Case,
    lane: usize,
    st: &mut Stats,
) -> Result<Result<(), Fail>, String> {
    crate::hsys::LAST_PANIC_LOC.with(|l| l.borrow_mut().clear());
    match catch_unwind(AssertUnwindSafe(|| p.check(case, lane, st))) {
        Ok(Err(f))
            if f.key.as_deref() == Some("build-or-identify")
                && f.msg.contains(crate::build::AFTER_REJECTED) =>
        {
            st.class("discarded_builder_unusable_after_a_caught_rejected_registration");
            Ok(Ok(()))
        }
        Ok(r) => Ok(r),
        Err(e) => {
            // a panic that escaped the oracle: raised by the library (or a crate it builds on) it
            // is a finding about the code under test, raised by the harness it is a harness bug
            let msg = crate::build::panic_msg(&e);
            let loc = crate::hsys::LAST_PANIC_LOC.with(|l| l.borrow().clone());
            let library = loc.starts_with("/repo/")
                || ["/arrayvec-", "/atomic_refcell-", "/smallvec-", "/ahash-"]
                    .iter()
                    .any(|c| loc.contains(c));
            if library {
                Ok(Err(Fail::keyed(
                    "library-panic",
                    format!(
                        "the library panicked where the property allows no panic: {} (at {})",
                        msg, loc
                    ),
                )))
            } else {
                Err(format!("{} (at {})", msg, loc))
            }
        }
    }
}

pub fn write_replay<P: Prop>(p: &P, case: &P::Case, msg: &str, seed: u64) -> String {
    let dir = verif_dir().join("replays");
    let _ = std::fs::create_dir_all(&dir);
    let path = dir.join(format!("{}-{}-seed{}.json", p.property(), p.name(), seed));
    let v = json!({
        "property": p.property(),
        "check": p.name(),
        "message": msg,
        "case": case,
    });
    let _ = std::fs::write(&path, serde_json::to_string_pretty(&v).unwrap());
    path.to_string_lossy().to_string()
}

/// What kind of failure a message reports: the text up to the first quoted / bracketed detail, with
/// digits removed. Shrinking only moves to candidates that fail in the same way, so that the
/// reported case shows the failure that was found and not another one met on the way.
pub fn failure_kind(msg: &str) -> String {
    let cut = msg.find(['"', '[', '{', '(']).unwrap_or(msg.len());
    msg[..cut]
        .chars()
        .filter(|c| !c.is_ascii_digit())
        .take(60)
        .collect()
}

/// Structural minimisation of a failing case; a candidate must fail twice in a row to be accepted,
/// so that a failure that depends on real thread timing does not shrink into an unrelated case.
pub fn structural_minimise<P: Prop>(
    p: &P,
    mut case: P::Case,
    mut msg: String,
    lane: usize,
    known: &Known,
    started: Option<std::time::Instant>,
) -> (P::Case, String) {
    let mut budget = p.minimise_budget();
    let mut scratch = Stats::default();
    let kind = failure_kind(&msg);
    let fails = |c: &P::Case, scratch: &mut Stats| -> Option<String> {
        match guarded_check(p, c, lane, scratch) {
            Ok(Err(f)) if known.matches(p.property(), &f).is_none() && failure_kind(&f.msg) == kind => Some(f.msg),
            _ => None,
        }
    };
    'outer: loop {
        for cand in p.simplify(&case) {
            if budget == 0 || started.map(|t| t.elapsed() > SHRINK_WALL).unwrap_or(false) {
                break 'outer;
            }
            budget -= 1;
            if let Some(m1) = fails(&cand, &mut scratch) {
                if fails(&cand, &mut scratch).is_some() {
                    case = cand;
                    msg = m1;
                    continue 'outer;
                }
            }
        }
        break;
    }
    (case, msg)
}

pub fn drive<P: Prop>(p: &P, cases: usize, lanes: usize, seed: u64, known: &Known) -> SubResult {
    let t0 = Instant::now();
    let stop = AtomicBool::new(false);
    let lanes = lanes.max(1).min(cases.max(1));
    let per_lane = (cases + lanes - 1) / lanes;
    let mut results: Vec<(Stats, Option<(P::Case, String)>, Option<String>)> = vec![];
    std::thread::scope(|scope| {
        let mut handles = vec![];
        for lane in 0..lanes {
            let stop = &stop;
            let tb = std::thread::Builder::new().name(format!("lane-{}", lane));
            handles.push(tb.spawn_scoped(scope, move || {
                let mut stats = Stats::default();
                let mut harness_err: Option<String> = None;
                let failed = std::cell::Cell::new(false);
                let first_fail: std::cell::RefCell<Option<(P::Case, String)>> = std::cell::RefCell::new(None);
                let cfg = Config {
                    cases: per_lane as u32,
                    rng_seed: RngSeed::Fixed(seed.wrapping_mul(64).wrapping_add(lane as u64)),
                    failure_persistence: None,
                    max_shrink_iters: p.max_shrink_iters(),
                    max_global_rejects: 0,
                    verbose: 0,
                    ..Config::default()
                };
                let mut runner = TestRunner::new(cfg);
                let strat = pvec(any::<u16>(), 0..=p.stream_len());
                let shrink_started: std::cell::Cell<Option<std::time::Instant>> = std::cell::Cell::new(None);
                let res = {
                    let stats_cell = std::cell::RefCell::new(&mut stats);
                    let herr = std::cell::RefCell::new(&mut harness_err);
                    runner.run(&strat, |stream| {
                        if stop.load(SeqCst) && !failed.get() {
                            return Ok(());
                        }
                        // minimisation is bounded in wall-clock time too (cases that wait for deadlines
                        // on broken code are slow): past the bound every candidate counts as passing,
                        // which ends the shrink with the smallest failing case found so far. The verdict
                        // was reached before and does not depend on this.
                        if failed.get() && shrink_started.get().map(|t| t.elapsed() > SHRINK_WALL).unwrap_or(false) {
                            return Ok(());
                        }
                        if herr.borrow().is_some() {
                            return Ok(());
                        }
                        let mut src = Src::new(&stream);
                        let case = p.gen(&mut src);
                        if p.journal() {
                            let v = json!({"property": p.property(), "check": p.name(),
                                "message": "the process died while executing this case", "case": &case});
                            let path = journal_path(p.property(), p.name(), lane);
                            let _ = std::fs::create_dir_all(path.parent().unwrap());
                            let _ = std::fs::write(&path, v.to_string());
                        }
                        let mut scratch = Stats::default();
                        let shrinking = failed.get();
                        let mut guard = stats_cell.borrow_mut();
                        let st: &mut Stats = if shrinking { &mut scratch } else { &mut **guard };
                        if !shrinking {
                            st.evaluations += 1;
                        }
                        match guarded_check(p, &case, lane, st) {
                            Err(e) => {
                                **herr.borrow_mut() = Some(e);
                                Ok(())
                            }
                            Ok(Ok(())) => Ok(()),
                            Ok(Err(f)) => {
                                if let Some(k) = known.matches(p.property(), &f) {
                                    if !shrinking {
                                        *guard.known_hits.entry(k).or_insert(0) += 1;
                                    }
                                    Ok(())
                                } else {
                                    if failed.get() {
                                        // shrinking: only the failure that was found counts
                                        let same = first_fail
                                            .borrow()
                                            .as_ref()
                                            .map(|(_, m)| failure_kind(m) == failure_kind(&f.msg))
                                            .unwrap_or(true);
                                        if !same {
                                            return Ok(());
                                        }
                                    }
                                    if !failed.get() {
                                        *first_fail.borrow_mut() = Some((case.clone(), f.msg.clone()));
                                        // developer knob: keep the case as first generated
                                        if let Ok(path) = std::env::var("VERIF_KEEP_FIRST") {
                                            let _ = std::fs::write(path, json!({"message": f.msg, "case": &case}).to_string());
                                        }
                                    }
                                    if !failed.get() {
                                        shrink_started.set(Some(std::time::Instant::now()));
                                    }
                                    failed.set(true);
                                    stop.store(true, SeqCst);
                                    Err(TestCaseError::fail(f.msg))
                                }
                            }
                        }
                    })
                };
                let mut fail_case = None;
                match res {
                    Ok(()) => {}
                    Err(TestError::Fail(reason, stream)) => {
                        let mut src = Src::new(&stream);
                        let mut case = p.gen(&mut src);
                        let mut msg = reason.to_string();
                        let (c2, m2) = structural_minimise(p, case, msg, lane, known, shrink_started.get());
                        case = c2;
                        msg = m2;
                        let mut scratch = Stats::default();
                        let fails = |c: &P::Case, scratch: &mut Stats| -> Option<String> {
                            match guarded_check(p, c, lane, scratch) {
                                Ok(Err(f)) if known.matches(p.property(), &f).is_none() => Some(f.msg),
                                _ => None,
                            }
                        };
                        // the minimal case must still fail when run again (up to 5 tries); otherwise
                        // the first failing case as generated is what gets reported
                        let mut reproduced = false;
                        for _ in 0..5 {
                            if let Some(m) = fails(&case, &mut scratch) {
                                msg = m;
                                reproduced = true;
                                break;
                            }
                        }
                        if !reproduced {
                            if let Some((c0, m0)) = first_fail.borrow_mut().take() {
                                case = c0;
                                msg = format!("{} (not reproducible after shrinking: this is the case as first generated)", m0);
                            }
                        }
                        fail_case = Some((case, msg));
                    }
                    Err(TestError::Abort(reason)) => {
                        harness_err = Some(format!("proptest aborted: {}", reason));
                    }
                }
                if p.journal() {
                    let _ = std::fs::remove_file(journal_path(p.property(), p.name(), lane));
                }
                (stats, fail_case, harness_err)
            }).expect("harness: cannot spawn lane thread"));
        }
        for h in handles {
            match h.join() {
                Ok(r) => results.push(r),
                Err(e) => results.push((
                    Stats::default(),
                    None,
                    Some(format!("lane panicked: {}", crate::build::panic_msg(&e))),
                )),
            }
        }
    });
    let mut stats = Stats::default();
    let mut violation = None;
    let mut harness_error = None;
    for (s, f, h) in results {
        stats.merge(s);
        if let Some((case, msg)) = f {
            if violation.is_none() {
                let replay = write_replay(p, &case, &msg, seed);
                violation = Some(Violation {
                    property: p.property().to_string(),
                    check: p.name().to_string(),
                    msg,
                    replay,
                });
            }
        }
        if let Some(h) = h {
            harness_error.get_or_insert(h);
        }
    }
    SubResult {
        name: p.name().to_string(),
        rule: p.rule().to_string(),
        stats,
        violation,
        harness_error,
        wall_s: t0.elapsed().as_secs_f64(),
    }
}

/// Runs explicitly enumerated cases (no generation) through the same oracle.
pub fn drive_cases<P: Prop>(p: &P, cases: Vec<P::Case>, seed: u64, known: &Known) -> SubResult {
    let t0 = Instant::now();
    let mut stats = Stats::default();
    let mut violation = None;
    let mut harness_error = None;
    for case in cases {
        stats.evaluations += 1;
        match guarded_check(p, &case, 0, &mut stats) {
            Err(e) => {
                harness_error = Some(e);
                break;
            }
            Ok(Ok(())) => {}
            Ok(Err(f)) => {
                if let Some(k) = known.matches(p.property(), &f) {
                    *stats.known_hits.entry(k).or_insert(0) += 1;
                } else {
                    let replay = write_replay(p, &case, &f.msg, seed);
                    violation = Some(Violation {
                        property: p.property().to_string(),
                        check: p.name().to_string(),
                        msg: f.msg,
                        replay,
                    });
                    break;
                }
            }
        }
    }
    SubResult {
        name: p.name().to_string(),
        rule: p.rule().to_string(),
        stats,
        violation,
        harness_error,
        wall_s: t0.elapsed().as_secs_f64(),
    }
}

/// object-safe face of a sub-check
pub trait DynProp: Sync {
    fn dname(&self) -> &'static str;
    fn dproperty(&self) -> &'static str;
    fn ddrive(&self, cases: usize, lanes: usize, seed: u64, known: &Known) -> SubResult;
    fn dreplay(&self, v: &Value) -> Result<Result<(), Fail>, String>;
    /// one case decoded from a choice stream (fuzz targets); Some(message) on a violation that is
    /// not a known finding; a harness error is reported the same way (the fuzzer must stop)
    fn dfuzz_one(&self, stream: &[u16], known: &Known) -> Option<String>;
    /// the JSON of the case a stream decodes to (for turning a fuzz artifact into a replay file)
    fn dcase_json(&self, stream: &[u16]) -> Value;
}

impl<P: Prop> DynProp for P {
    fn dname(&self) -> &'static str {
        self.name()
    }
    fn dproperty(&self) -> &'static str {
        self.property()
    }
    fn ddrive(&self, cases: usize, lanes: usize, seed: u64, known: &Known) -> SubResult {
        drive(self, cases, lanes, seed, known)
    }
    fn dreplay(&self, v: &Value) -> Result<Result<(), Fail>, String> {
        replay_case(self, v)
    }
    fn dfuzz_one(&self, stream: &[u16], known: &Known) -> Option<String> {
        let mut src = Src::new(stream);
        let case = self.gen(&mut src);
        let mut st = Stats::default();
        match guarded_check(self, &case, 0, &mut st) {
            Err(e) => Some(format!("harness error: {}", e)),
            Ok(Ok(())) => None,
            Ok(Err(f)) => {
                if known.matches(self.property(), &f).is_some() {
                    None
                } else {
                    Some(f.msg)
                }
            }
        }
    }
    fn dcase_json(&self, stream: &[u16]) -> Value {
        let mut src = Src::new(stream);
        let case = self.gen(&mut src);
        // the fuzzer's input is not minimal: run the structural simplifier on the decoded case
        let known = Known::load_cached();
        let mut st = Stats::default();
        let (case, msg) = match guarded_check(self, &case, 0, &mut st) {
            Ok(Err(f)) => structural_minimise(self, case, f.msg, 0, known, Some(std::time::Instant::now())),
            _ => (case, "found by the coverage-guided fuzzer".to_string()),
        };
        json!({"property": self.property(), "check": self.name(), "message": msg, "case": case})
    }
}

pub fn replay_case<P: Prop>(p: &P, v: &Value) -> Result<Result<(), Fail>, String> {
    let case: P::Case =
        serde_json::from_value(v.clone()).map_err(|e| format!("cannot parse case: {}", e))?;
    let mut st = Stats::default();
    guarded_check(p, &case, 0, &mut st)
}

// ------------------------------------------------------------------------------------------------
// evidence + exit code

pub struct PropertyRun {
    pub id: String,
    pub tier: String,
    pub seed: u64,
    pub level: String,
    pub subs: Vec<SubResult>,
    pub assumptions: Vec<String>,
    pub extra: BTreeMap<String, Value>,
}

impl PropertyRun {
    /// writes evidence, prints KNOWN-FINDING / VIOLATION lines, returns the exit code
    pub fn finish(self, known: &Known) -> i32 {
        let mut evaluations = 0u64;
        let mut nontrivial = 0u64;
        let mut samples: Vec<Value> = vec![];
        let mut classes = serde_json::Map::new();
        let mut rules = vec![];
        let mut wall = 0.0;
        let mut violations = 0;
        let mut known_hits: BTreeMap<String, u64> = BTreeMap::new();
        let mut subs_json = vec![];
        let mut exhaustive_plans = 0u64;
        let mut notes: BTreeSet<String> = BTreeSet::new();
        for s in &self.subs {
            evaluations += s.stats.evaluations;
            nontrivial += s.stats.nontrivial.len() as u64;
            for x in &s.stats.samples {
                if samples.len() < 6 {
                    samples.push(json!({ "check": s.name, "sample": x }));
                }
            }
            let cm: serde_json::Map<String, Value> = s
                .stats
                .classes
                .iter()
                .map(|(k, v)| (k.clone(), json!(v)))
                .collect();
            classes.insert(s.name.clone(), Value::Object(cm));
            rules.push(format!("[{}] {}", s.name, s.rule));
            wall += s.wall_s;
            if s.violation.is_some() {
                violations += 1;
            }
            for (k, v) in &s.stats.known_hits {
                *known_hits.entry(k.clone()).or_insert(0) += v;
            }
            exhaustive_plans += s.stats.exhaustive_plans;
            notes.extend(s.stats.notes.iter().cloned());
            subs_json.push(json!({
                "check": s.name,
                "evaluations": s.stats.evaluations,
                "distinct_nontrivial": s.stats.nontrivial.len(),
                "wall_s": s.wall_s,
                "violation": s.violation.as_ref().map(|v| v.msg.clone()),
                "harness_error": s.harness_error,
            }));
        }
        let mut coverage = serde_json::Map::new();
        coverage.insert("evaluations".into(), json!(evaluations));
        coverage.insert("distinct_nontrivial".into(), json!(nontrivial));
        coverage.insert("rule".into(), json!(rules.join(" || ")));
        coverage.insert("samples".into(), Value::Array(samples));
        coverage.insert("generator_classes".into(), Value::Object(classes));
        coverage.insert("checks".into(), Value::Array(subs_json));
        coverage.insert("known_finding_hits".into(), json!(known_hits));
        if exhaustive_plans > 0 {
            coverage.insert(
                "plans_with_all_interleavings_enumerated".into(),
                json!(exhaustive_plans),
            );
        }
        if !notes.is_empty() {
            coverage.insert("notes".into(), json!(notes));
        }
        for (k, v) in &self.extra {
            coverage.insert(k.clone(), v.clone());
        }
        let ev = json!({
            "property_id": self.id,
            "tier": self.tier,
            "seed": self.seed,
            "level": self.level,
            "coverage": Value::Object(coverage),
            "assumptions": self.assumptions,
            "wall_s": wall,
            "violations": violations,
        });
        let dir = verif_dir().join("evidence");
        let _ = std::fs::create_dir_all(&dir);
        let path = dir.join(format!("{}.json", self.id));
        if let Err(e) = std::fs::write(&path, serde_json::to_string_pretty(&ev).unwrap()) {
            eprintln!("cannot write evidence {}: {}", path.display(), e);
            return 2;
        }
        for (k, n) in &known_hits {
            let desc = known
                .entries
                .get(&(self.id.clone(), k.clone()))
                .cloned()
                .unwrap_or_default();
            println!(
                "KNOWN-FINDING: property={} key={} hits={} {}",
                self.id, k, n, desc
            );
        }
        let mut code = 0;
        for s in &self.subs {
            if let Some(v) = &s.violation {
                println!("VIOLATION property={} replay={}", v.property, v.replay);
                println!("  check={} : {}", v.check, v.msg);
                code = 1;
            }
        }
        if code == 0 {
            for s in &self.subs {
                if let Some(h) = &s.harness_error {
                    eprintln!("INCONCLUSIVE (harness error in {}): {}", s.name, h);
                    code = 2;
                }
            }
        }
        println!(
            "{} {} seed={} evaluations={} distinct_nontrivial={} wall={:.1}s exit={}",
            self.id, self.tier, self.seed, evaluations, nontrivial, wall, code
        );
        code
    }
}
