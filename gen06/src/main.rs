#![allow(dead_code, unused_imports, clippy::type_complexity)]
mod generated;
mod rt;

fn main() {
    std::panic::set_hook(Box::new(|_| {}));
    let mut rep = rt::Report::default();
    generated::run(&mut rep);
    println!("C06-SUMMARY types={} nontrivial={} fetches={} failures={}", rep.types, rep.nontrivial, rep.fetches, rep.failures.len());
    for (name, desc, msg) in &rep.failures {
        println!("C06-FAIL\t{}\t{}\t{}", name, desc, msg);
    }
}
