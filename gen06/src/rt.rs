//! Fixed runtime of the generated C06 programs: resource universe, cell classification, oracle.

use std::cell::RefCell;
use std::panic::{catch_unwind, AssertUnwindSafe};

use shred::{Resource, ResourceId, SetupHandler, World};

pub const NR: usize = 48;

#[derive(Default, Debug, PartialEq, Eq, Clone)]
pub struct R<const N: usize>(pub u64);

thread_local! {
    pub static HLOG: RefCell<Vec<usize>> = const { RefCell::new(Vec::new()) };
}

/// custom setup handler number K: logs its call, then provides the default
pub struct H<const K: usize>;
impl<T: Resource + Default, const K: usize> SetupHandler<T> for H<K> {
    fn setup(world: &mut World) {
        HLOG.with(|l| l.borrow_mut().push(K));
        world.entry().or_insert_with(T::default);
    }
}

macro_rules! for_all_r {
    ($m:ident) => {
        $m!(0, 1, 2, 3, 4, 5, 6, 7, 8, 9, 10, 11, 12, 13, 14, 15, 16, 17, 18, 19, 20, 21, 22, 23, 24,
            25, 26, 27, 28, 29, 30, 31, 32, 33, 34, 35, 36, 37, 38, 39, 40, 41, 42, 43, 44, 45, 46, 47)
    };
}

pub fn ids() -> Vec<ResourceId> {
    let mut v = vec![];
    macro_rules! push { ($($n:literal),*) => { $( v.push(ResourceId::new::<R<$n>>()); )* }; }
    for_all_r!(push);
    v
}

/// one more resource of every type under a non-zero dynamic id: no provided system-data type may
/// ever touch these (typed accessors mean dynamic id 0)
pub fn sib_dyn(n: usize) -> u64 {
    if n % 2 == 0 {
        1 << 32
    } else {
        1
    }
}

pub fn sib_ids() -> Vec<ResourceId> {
    let mut v = vec![];
    macro_rules! push { ($($n:literal),*) => { $( v.push(ResourceId::new_with_dynamic_id::<R<$n>>(sib_dyn($n))); )* }; }
    for_all_r!(push);
    v
}

pub fn insert_sibling(world: &mut World, n: usize, val: u64) {
    macro_rules! ins { ($($k:literal),*) => { match n { $( $k => world.insert_by_id(ResourceId::new_with_dynamic_id::<R<$k>>(sib_dyn($k)), R::<$k>(val)), )* _ => panic!("rt: bad resource index") } }; }
    for_all_r!(ins)
}

pub fn sibling_value(world: &World, n: usize) -> Option<u64> {
    macro_rules! get { ($($k:literal),*) => { match n { $( $k => world.try_fetch_by_id::<R<$k>>(ResourceId::new_with_dynamic_id::<R<$k>>(sib_dyn($k))).map(|g| g.0), )* _ => panic!("rt: bad resource index") } }; }
    for_all_r!(get)
}

/// which siblings exist under presence mask `mask` (a different subset than the typed resources)
pub fn sib_present(mask: u64, n: usize) -> bool {
    (mask >> ((n * 7 + 3) % NR)) & 1 == 1
}

pub fn insert(world: &mut World, n: usize, val: u64) {
    macro_rules! ins { ($($k:literal),*) => { match n { $( $k => world.insert(R::<$k>(val)), )* _ => panic!("rt: bad resource index") } }; }
    for_all_r!(ins)
}

pub fn value(world: &World, n: usize) -> Option<u64> {
    macro_rules! get { ($($k:literal),*) => { match n { $( $k => world.try_fetch::<R<$k>>().map(|g| g.0), )* _ => panic!("rt: bad resource index") } }; }
    for_all_r!(get)
}

#[derive(Clone, Copy, PartialEq, Eq, Debug)]
pub enum Cell {
    Absent,
    Free,
    Shared,
    Excl,
}

pub fn classify(world: &World, ids: &[ResourceId]) -> Vec<Cell> {
    ids.iter()
        .map(|id| match unsafe { world.try_fetch_internal(id.clone()) } {
            None => Cell::Absent,
            Some(c) => {
                if c.try_borrow_mut().is_ok() {
                    Cell::Free
                } else if c.try_borrow().is_ok() {
                    Cell::Shared
                } else {
                    Cell::Excl
                }
            }
        })
        .collect()
}

pub struct Expect {
    pub name: &'static str,
    pub descriptor: &'static str,
    pub reads: &'static [usize],
    pub writes: &'static [usize],
    /// resources reached through a default-providing accessor
    pub provides: &'static [usize],
    /// resources reached only through Option forms
    pub optional: &'static [usize],
    pub handlers: &'static [usize],
    /// presence masks to try (bit n = resource n present)
    pub masks: &'static [u64],
}

#[derive(Default)]
pub struct Report {
    pub types: usize,
    pub nontrivial: usize,
    pub fetches: usize,
    pub failures: Vec<(String, String, String)>,
}

impl Report {
    pub fn fail(&mut self, e: &Expect, msg: String) {
        self.failures
            .push((e.name.to_string(), e.descriptor.to_string(), msg));
    }
}

fn sorted(v: &[usize]) -> Vec<usize> {
    let mut v = v.to_vec();
    v.sort();
    v
}

fn idx_of(all: &[ResourceId], ids: Vec<ResourceId>) -> Vec<usize> {
    let mut v: Vec<usize> = ids
        .iter()
        .map(|i| all.iter().position(|a| a == i).unwrap_or(999))
        .collect();
    v.sort();
    v
}

/// the access lists a system over `T` hands to the dispatcher (`System::accessor()` is a
/// `StaticAccessor<T>`) must be the ones `T` reports statically
pub fn accessor_agrees<'a, T: shred::SystemData<'a>>(rep: &mut Report, e: &Expect) {
    use shred::Accessor;
    let acc = match <shred::StaticAccessor<T> as Accessor>::try_new() {
        Some(a) => a,
        None => {
            rep.fail(e, "StaticAccessor::try_new() returned None".into());
            return;
        }
    };
    for round in 0..2 {
        if acc.reads() != T::reads() || acc.writes() != T::writes() {
            rep.fail(e, format!("query {}: the accessor reports reads {:?} / writes {:?}, the type itself reports {:?} / {:?}", round, acc.reads(), acc.writes(), T::reads(), T::writes()));
            return;
        }
    }
}

/// `decl` = (reads(), writes()); `fetch` fetches the type from the world, calls the probe while the
/// value is alive, drops it; `setup` runs the type's setup
pub fn check_type(
    rep: &mut Report,
    e: &Expect,
    decl: (Vec<ResourceId>, Vec<ResourceId>),
    fetch: &dyn Fn(&World, &mut dyn FnMut()),
    setup: &dyn Fn(&mut World),
    setup_dyn: &dyn Fn(&mut World),
) {
    rep.types += 1;
    if e.reads.len() + e.writes.len() >= 2 {
        rep.nontrivial += 1;
    }
    let all = ids();
    // 1. declared access
    let (dr, dw) = (idx_of(&all, decl.0), idx_of(&all, decl.1));
    if dr != sorted(e.reads) {
        rep.fail(e, format!("reads() reports resources {:?}, the members read {:?}", dr, sorted(e.reads)));
        return;
    }
    if dw != sorted(e.writes) {
        rep.fail(e, format!("writes() reports resources {:?}, the members write {:?}", dw, sorted(e.writes)));
        return;
    }
    // 2. real borrows under several presence subsets
    for &mask in e.masks {
        let present = |n: usize| mask & (1u64 << n) != 0;
        let mut world = World::empty();
        // siblings first for even n, after the typed resource for odd n (insertion order matters to
        // hash-table probe order)
        for n in 0..NR {
            if n % 2 == 0 && sib_present(mask, n) {
                insert_sibling(&mut world, n, 555_000 + n as u64);
            }
            if present(n) {
                insert(&mut world, n, 7000 + n as u64);
            }
            if n % 2 == 1 && sib_present(mask, n) {
                insert_sibling(&mut world, n, 555_000 + n as u64);
            }
        }
        let sibs = sib_ids();
        let must_panic = e
            .reads
            .iter()
            .chain(e.writes.iter())
            .any(|n| !present(*n) && !e.optional.contains(n));
        let mut during: Option<Vec<Cell>> = None;
        let mut sib_during: Option<Vec<Cell>> = None;
        let r = catch_unwind(AssertUnwindSafe(|| {
            fetch(&world, &mut || {
                during = Some(classify(&world, &all));
                sib_during = Some(classify(&world, &sibs));
            });
        }));
        rep.fetches += 1;
        let after = classify(&world, &all);
        for (which, cells) in [("after the value was dropped (or the fetch panicked)", Some(classify(&world, &sibs))), ("while the fetched value is alive", sib_during)] {
            if let Some(cells) = cells {
                for n in 0..NR {
                    let want = if sib_present(mask, n) { Cell::Free } else { Cell::Absent };
                    if cells[n] != want {
                        rep.fail(e, format!("presence mask {:#x}: {} the resource of type R<{}> under dynamic id {:#x} (which no typed accessor names) is {:?}, expected {:?}", mask, which, n, sib_dyn(n), cells[n], want));
                        return;
                    }
                }
            }
        }
        for n in 0..NR {
            let want = if present(n) { Cell::Free } else { Cell::Absent };
            if after[n] != want {
                rep.fail(e, format!("presence mask {:#x}: after the value was dropped (or the fetch panicked) resource {} is {:?}", mask, n, after[n]));
                return;
            }
        }
        match (must_panic, r.is_err()) {
            (true, false) => {
                rep.fail(e, format!("presence mask {:#x}: a non-optional member's resource is absent but fetch did not panic", mask));
                return;
            }
            (false, true) => {
                rep.fail(e, format!("presence mask {:#x}: fetch panicked although every non-optional resource is present", mask));
                return;
            }
            (true, true) => continue,
            (false, false) => {}
        }
        let during = match during {
            Some(d) => d,
            None => {
                rep.fail(e, "rt: probe was not called".into());
                return;
            }
        };
        for n in 0..NR {
            let want = if !present(n) {
                Cell::Absent
            } else if e.writes.contains(&n) {
                Cell::Excl
            } else if e.reads.contains(&n) {
                Cell::Shared
            } else {
                Cell::Free
            };
            if during[n] != want {
                rep.fail(e, format!("presence mask {:#x}: while the fetched value is alive resource {} is {:?}, expected {:?} (reads {:?}, writes {:?})", mask, n, during[n], want, e.reads, e.writes));
                return;
            }
        }
    }
    // 2b. an Option member whose resource exists but is conflictingly borrowed by somebody else:
    // the fetch may panic, but it must not come back reporting an access it does not hold
    for &o in e.optional.iter().take(3) {
        let mut world = World::empty();
        for n in 0..NR {
            insert(&mut world, n, 7000 + n as u64);
        }
        let cell = unsafe { world.try_fetch_internal(all[o].clone()) }.unwrap();
        let wants_excl = e.writes.contains(&o);
        let foreign_shared;
        let foreign_excl;
        if wants_excl {
            foreign_shared = Some(cell.borrow());
            foreign_excl = None;
        } else {
            foreign_shared = None;
            foreign_excl = Some(cell.borrow_mut());
        }
        let mut during: Option<Vec<Cell>> = None;
        let r = catch_unwind(AssertUnwindSafe(|| {
            fetch(&world, &mut || during = Some(classify(&world, &all)));
        }));
        rep.fetches += 1;
        if r.is_ok() {
            let d = during.unwrap_or_default();
            let want = if wants_excl { Cell::Excl } else { Cell::Shared };
            if d.get(o) != Some(&want) {
                rep.fail(e, format!("with a conflicting foreign guard on resource {} alive, fetch returned a value although it cannot hold the {:?} borrow it reports for that existing resource (cell is {:?})", o, want, d.get(o)));
                return;
            }
        }
        drop(foreign_shared);
        drop(foreign_excl);
        let after = classify(&world, &all);
        if after.iter().any(|c| *c != Cell::Free) {
            rep.fail(e, format!("after a fetch against a conflicting foreign guard on resource {} something is still borrowed", o));
            return;
        }
    }
    // 3. setup on a partially filled world, through both routes: the type's own `SystemData::setup`
    // and `DynamicSystemData::setup` with the static accessor (what `System::setup`, the dispatchers
    // and ParSeq call)
    for (route, setup) in [("SystemData::setup", setup), ("DynamicSystemData::setup with the static accessor", setup_dyn)] {
    for &mask in e.masks.iter().take(3) {
        let present = |n: usize| mask & (1u64 << n) != 0;
        let mut world = World::empty();
        for n in 0..NR {
            if n % 2 == 0 && sib_present(mask, n) {
                insert_sibling(&mut world, n, 666_000 + n as u64);
            }
            if present(n) {
                insert(&mut world, n, 9000 + n as u64);
            }
            if n % 2 == 1 && sib_present(mask, n) {
                insert_sibling(&mut world, n, 666_000 + n as u64);
            }
        }
        HLOG.with(|l| l.borrow_mut().clear());
        if catch_unwind(AssertUnwindSafe(|| setup(&mut world))).is_err() {
            rep.fail(e, format!("presence mask {:#x}: setup ({}) panicked", mask, route));
            return;
        }
        let log = HLOG.with(|l| l.borrow().clone());
        if sorted(&log) != sorted(e.handlers) {
            rep.fail(e, format!("presence mask {:#x}: setup ({}) called the custom handlers {:?}, the members with a custom handler are {:?} (each exactly once)", mask, route, log, e.handlers));
            return;
        }
        for n in 0..NR {
            let v = value(&world, n);
            let want = if present(n) {
                Some(9000 + n as u64)
            } else if e.provides.contains(&n) {
                Some(0)
            } else {
                None
            };
            if v != want {
                rep.fail(e, format!("presence mask {:#x}: after setup resource {} is {:?}, expected {:?} (pre-existing values untouched, default-provided ones created, nothing else)", mask, n, v, want));
                return;
            }
            let sv = sibling_value(&world, n);
            let swant = if sib_present(mask, n) { Some(666_000 + n as u64) } else { None };
            if sv != swant {
                rep.fail(e, format!("presence mask {:#x}: after setup the resource of type R<{}> under dynamic id {:#x} is {:?}, expected {:?} (setup concerns dynamic id 0 only)", mask, n, sib_dyn(n), sv, swant));
                return;
            }
        }
    }
    }
}
