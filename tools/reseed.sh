#!/bin/bash
# tools/reseed.sh [name...]   re-run the quick checks against every stored seeded change
# (applies seeded/<name>/patch.diff to /repo's working tree, runs the checks in meta.checks_run, restores)
set -u
cd /verif
names="${*:-$(ls seeded)}"
for n in $names; do
  d=/verif/seeded/$n
  [ -f "$d/patch.diff" ] || continue
  cd /repo; git diff --quiet || { echo "refusing: /repo dirty"; exit 2; }
  if ! git apply "$d/patch.diff" 2>/dev/null; then echo "$n: patch does not apply"; continue; fi
  checks=$(python3 -c "import json;print(' '.join(json.load(open('$d/meta.json')).get('checks_run',[])))")
  det=""
  for id in $checks; do
    out=$(cd /verif && timeout 1200 ./check "$id" quick 2>&1); rc=$?
    if [ $rc -eq 1 ]; then det="$det $id:$(echo "$out" | grep -E "check=" | head -1 | sed -E 's/.*check=([^ ]+).*/\1/')"; fi
    [ $rc -eq 2 ] && det="$det $id:INCONCLUSIVE"
  done
  git checkout -q -- .
  python3 - "$d/meta.json" "$det" <<'PY'
import json,sys
p,det=sys.argv[1:3]
m=json.load(open(p)); m["detected_by"]=det.split(); json.dump(m,open(p,"w"),indent=1)
PY
  echo "$n: detected_by:${det:- NONE}"
done
