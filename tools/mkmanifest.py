#!/usr/bin/env python3
"""Regenerates /verif/MANIFEST.json from the table below (kept in one place so it stays valid)."""
import json, os, subprocess

HERE = os.path.dirname(os.path.dirname(os.path.abspath(__file__)))

# id -> (technique, level text, level note, design ref)
LAYOUT_NOTE = "Trusts the verif-hooks shape hook and that dispatch_seq visits stages/groups/systems in storage order (identification run); explores a finite generated sample, never proves absence."
PBT = "property-based testing (proptest choice streams -> generated registration sequences -> real builder/dispatcher -> explicit oracle; proptest + structural shrinking; JSON replay)"

CLAIMED = {
    "C01": (PBT + "; oracle = reference conflict relation over the executed layout",
        "Generated-input search over registration sequences; oracle A checks on the really executed layout that no two conflicting systems sit in different groups of one stage.",
        LAYOUT_NOTE, "DESIGN.md 4/C01"),
    "C02": (PBT + "; oracle = every declared dependency edge is ordered in the executed layout",
        "Generated-input search over dependency-heavy registration sequences; oracle A: every declared edge A -> B has A strictly before B in the executed layout.",
        LAYOUT_NOTE, "DESIGN.md 4/C02"),
    "C03": (PBT + "; oracle = barrier segments occupy strictly increasing stage ranges",
        "Generated-input search over sequences with barriers at arbitrary positions; oracle A on the executed layout.",
        LAYOUT_NOTE, "DESIGN.md 4/C03"),
    "C04": (PBT + "; oracle = registered == executed (shape hook + identification run)",
        "Generated-input search incl. the funnel class (groups filled to capacity); every registered system appears exactly once in the executed lists.",
        LAYOUT_NOTE, "DESIGN.md 4/C04"),
    "C10": (PBT + "; oracle = the statement's validity predicate over the executed layout",
        "Generated-input search over registration sequences; the oracle is the statement's own validity predicate evaluated on the layout that is really executed. Found and fixed two defects (duplicate dependency names, dependencies in front of a barrier).",
        LAYOUT_NOTE, "DESIGN.md 4/C10"),
    "C18": (PBT + "; generated ill-formed call planted at a generated position; oracle = panic exactly there, quoting the name, nowhere else",
        "Generated registration sequences up to 400 calls, funnel class, nested builders; every call under catch_unwind.",
        "Nothing is claimed about a builder after it panicked; explores a finite sample.", "DESIGN.md 4/C18"),
    "C19": (PBT + "; metamorphic relation: renaming / relabelling / list permutation leave the executed layout unchanged",
        "Metamorphic generated-input search: P, P built twice, and transformed P' must give identical canonical layouts.",
        LAYOUT_NOTE, "DESIGN.md 4/C19"),
    "C20": (PBT + "; oracle = printed text parses and equals the executed layout position by position",
        "Generated-input search over builders with unnamed systems, odd names, batches, empty builders. Found and fixed one defect (unnamed systems made Debug panic).",
        LAYOUT_NOTE, "DESIGN.md 4/C20"),
}

NOT_YET = "check not built yet in this session (planned, see DESIGN.md section 4)"

def main():
    props = [json.loads(l)["id"] for l in open(os.path.join(HERE, "properties.jsonl"))]
    try:
        commits = subprocess.check_output(
            ["git", "-C", "/repo", "log", "--format=%h %s"], text=True).splitlines()
    except Exception:
        commits = []
    hook_commits = [c.split()[0] for c in commits if "verif-hooks" in c]
    checks = []
    for pid in props:
        if pid not in CLAIMED:
            continue
        tech, text, note, ref = CLAIMED[pid]
        checks.append({
            "property_id": pid,
            "quick_cmd": f"./check {pid} quick",
            "thorough_cmd": f"./check {pid} thorough",
            "evidence_file": f"/verif/evidence/{pid}.json",
            "replay_cmd_template": "./check replay {path}",
            "engine": "vcheck",
            "level_claimed": {
                "category": "fault_enumeration" if pid == "C14" else "exploration",
                "text": text,
                "design_ref": ref,
            },
            "level_note": note,
            "technique": tech,
        })
    manifest = {
        "version": 1,
        "setup_cmd": "./setup.sh",
        "hooks": {
            "guard": "cargo feature verif-hooks (of the shred crate)",
            "enable": "the harness crates depend on shred by path (/repo) with features = [\"verif-hooks\"]; cargo rebuilds shred from /repo's working tree on every ./check",
            "baseline_off_cmd": "cd /repo && (cargo nextest run --workspace --no-fail-fast --tool-config-file pb:/w/lib/nextest.toml --profile pb --test-threads 8 --offline || cargo test --workspace --no-fail-fast --offline)",
            "source_commits": hook_commits,
            "add_only": True,
        },
        "engines": [
            {
                "name": "vcheck",
                "path": "/verif/harness",
                "serves_properties": sorted(CLAIMED.keys()),
                "kind_free_text": "Rust binary: proptest-generated choice streams decoded into registration sequences / histories / schedules, run against the real shred crate; explicit oracles; proptest + structural shrinking; JSON replay files",
            }
        ],
        "checks": checks,
        "not_applicable": [
            {"property_id": pid, "reason": NOT_YET} for pid in props if pid not in CLAIMED
        ],
        "notes": "Exit codes of every command: 0 held, 1 VIOLATION line printed, 2 inconclusive (build failure, watchdog, harness error). KNOWN_FINDINGS.txt lists known and fixed defects.",
    }
    with open(os.path.join(HERE, "MANIFEST.json"), "w") as f:
        json.dump(manifest, f, indent=1)
        f.write("\n")

if __name__ == "__main__":
    main()
