#!/usr/bin/env python3
"""Regenerates /verif/MANIFEST.json from the table below (kept in one place so it stays valid)."""
import json, os, subprocess

HERE = os.path.dirname(os.path.dirname(os.path.abspath(__file__)))

# id -> (technique, level text, level note, design ref)
CLAIMED = {
    "C10": (
        "property-based testing: generated registration sequences -> real builder -> validity predicate over the executed layout (shape hook + identification run)",
        "Generated-input search (proptest-driven choice streams, 16 lanes) over registration sequences; the oracle is the statement's own validity predicate evaluated on the layout that is really executed. Found and fixed two defects (duplicate dependency names, dependencies in front of a barrier).",
        "Trusts the verif-hooks shape hook and that dispatch_seq visits stages/groups/systems in storage order; explores a finite sample, never proves absence.",
        "DESIGN.md 4/C10",
    ),
}

NOT_YET = "check not built yet in this session (planned, see DESIGN.md section 4)"

def main():
    props = [json.loads(l)["id"] for l in open(os.path.join(HERE, "properties.jsonl"))]
    try:
        commits = subprocess.check_output(
            ["git", "-C", "/repo", "log", "--format=%h %s"], text=True).splitlines()
    except Exception:
        commits = []
    hook_commits = [c.split()[0] for c in commits if "verif-hooks" in c]
    checks = []
    for pid in props:
        if pid not in CLAIMED:
            continue
        tech, text, note, ref = CLAIMED[pid]
        checks.append({
            "property_id": pid,
            "quick_cmd": f"./check {pid} quick",
            "thorough_cmd": f"./check {pid} thorough",
            "evidence_file": f"/verif/evidence/{pid}.json",
            "replay_cmd_template": "./check replay {path}",
            "engine": "vcheck",
            "level_claimed": {
                "category": "fault_enumeration" if pid == "C14" else "exploration",
                "text": text,
                "design_ref": ref,
            },
            "level_note": note,
            "technique": tech,
        })
    manifest = {
        "version": 1,
        "setup_cmd": "./setup.sh",
        "hooks": {
            "guard": "cargo feature verif-hooks (of the shred crate)",
            "enable": "the harness crates depend on shred by path (/repo) with features = [\"verif-hooks\"]; cargo rebuilds shred from /repo's working tree on every ./check",
            "baseline_off_cmd": "cd /repo && (cargo nextest run --workspace --no-fail-fast --tool-config-file pb:/w/lib/nextest.toml --profile pb --test-threads 8 --offline || cargo test --workspace --no-fail-fast --offline)",
            "source_commits": hook_commits,
            "add_only": True,
        },
        "engines": [
            {
                "name": "vcheck",
                "path": "/verif/harness",
                "serves_properties": sorted(CLAIMED.keys()),
                "kind_free_text": "Rust binary: proptest-generated choice streams decoded into registration sequences / histories / schedules, run against the real shred crate; explicit oracles; proptest + structural shrinking; JSON replay files",
            }
        ],
        "checks": checks,
        "not_applicable": [
            {"property_id": pid, "reason": NOT_YET} for pid in props if pid not in CLAIMED
        ],
        "notes": "Exit codes of every command: 0 held, 1 VIOLATION line printed, 2 inconclusive (build failure, watchdog, harness error). KNOWN_FINDINGS.txt lists known and fixed defects.",
    }
    with open(os.path.join(HERE, "MANIFEST.json"), "w") as f:
        json.dump(manifest, f, indent=1)
        f.write("\n")

if __name__ == "__main__":
    main()
