#!/usr/bin/env python3
"""Regenerates /verif/MANIFEST.json from the table below (kept in one place so it stays valid)."""
import json, os, subprocess

HERE = os.path.dirname(os.path.dirname(os.path.abspath(__file__)))

# id -> (technique, level text, level note, design ref)
LAYOUT_NOTE = "Trusts the verif-hooks shape hook and that dispatch_seq visits stages/groups/systems in storage order (identification run); explores a finite generated sample, never proves absence."
PBT = "property-based testing (proptest choice streams -> generated registration sequences -> real builder/dispatcher -> explicit oracle; proptest + structural shrinking; JSON replay)"

CLAIMED = {
    "C01": (PBT + "; oracles: reference conflict relation over the executed layout (A) and disjoint fetch..release windows in the observed history under a harness-owned schedule (B), incl. depth-first enumeration of all interleavings for tiny plans",
        "Generated registration sequences (general, conflict-dense, wide > 6 groups per stage, heavy-reader classes) x schedules x pool sizes x entry points incl. the async dispatcher. Layout oracle on every case; execution on real threads with gates in the harness systems that let a decision vector order all fetch/release events (random linear extension, maximal overlap, free run with jitter, exhaustive DFS for plans of <= 5 systems and for tiny plans with one batch).",
        LAYOUT_NOTE + " Schedules are controlled at the granularity of system windows; interleavings inside rayon / AtomicRefCell are only sampled. The async dispatcher is exercised by the C15 check with the same window oracles.", "DESIGN.md 4/C01"),
    "C02": (PBT + "; oracles: every declared edge ordered in the executed layout (A), Released(A) < FetchBegin(B) in every observed dispatch under schedule control (B)",
        "Dependency-heavy generated sequences; layout oracle on every case, history oracle under random / maximal-overlap / jittered schedules for dispatch, dispatch_par, dispatch_seq (async: C15 check).",
        LAYOUT_NOTE, "DESIGN.md 4/C02"),
    "C03": (PBT + "; oracles: barrier segments occupy strictly increasing stage ranges (A), Released(pre) < FetchBegin(post) in observed histories (B)",
        "Generated sequences with barriers at arbitrary positions incl. inside batch builders; layout oracle, metamorphic oracle (removing barriers that follow no registration leaves the executed plan unchanged), history oracle under schedule control incl. all interleavings of tiny plans, and the async dispatcher.",
        LAYOUT_NOTE, "DESIGN.md 4/C03"),
    "C04": (PBT + "; oracles: registered == executed (shape hook + identification run); run counters after generated call sequences",
        "Generated sequences incl. the funnel class (groups filled to capacity), nested batches with custom and MultiDispatcher controllers, thread-local systems; counters after every call of generated sequences of dispatch / dispatch_par / dispatch_seq / dispatch_thread_local / RunNow::run_now on pools of 1..16 threads or rayon's default pool, with caught panics, moved worlds and two alternating worlds in the history; two dispatchers sharing one pool at the same time; MultiDispatcher plans of 2^k-1, 2^k, 2^k+1 inner dispatches.",
        LAYOUT_NOTE, "DESIGN.md 4/C04"),
    "C05": (PBT + "; differential oracle: order-sensitive systems, parallel dispatch under a generated schedule vs dispatch_seq of the same dispatcher on an identical world; DFS over all interleavings for tiny plans",
        "Differential generated-input search: world contents and every system's state after parallel dispatch must equal the sequential result, for every pool size and schedule tried (small plans under schedule control incl. all interleavings of tiny ones, large plans with nested batches under free run); c05-nopar repeats the sequential reference in a second process and in the build without the `parallel` feature.",
        LAYOUT_NOTE + "" + " The no-`parallel`-feature build of the harness (vnopar) and a second process provide the sequential reference results that are compared.", "DESIGN.md 4/C05"),
    "C06": ("property-based testing over generated PROGRAMS: type descriptors from a grammar are compiled against the crate together with the access the harness's own composition rules expect; oracle: all 48 cells probed while the fetched value is alive",
        "Per run 26 tuple arities + 150 generated SystemData types (tuples, Option forms, custom setup handlers, derive structs with extra lifetime / type parameter / where-clause, depth <= 3); declared access, real borrows under >= 6 presence subsets, release, and setup effects are checked for each.",
        "Covers the grammar of compositions the library provides up to depth 3, not arbitrary user impls; cell state is observed through try_fetch_internal + try_borrow(_mut).", "DESIGN.md 4/C06"),
    "C07": (PBT + "; oracles: isolation / dependency / barrier / no-needless-serialisation predicates with the batch's access computed by the harness as the union over controller declaration and everything inside; window oracles under schedule control",
        "Generated outer and inner sequences, nesting <= 3, 13 controller declaration shapes, custom controllers dispatching 0..3 times and shred's MultiDispatcher.",
        LAYOUT_NOTE + " Known finding KF2 (thread-local system inside a batch is not part of the union) is matched by signature.", "DESIGN.md 4/C07"),
    "C08": ("model-based property testing: generated guard histories against a reference machine cell -> Free | Shared(n) | Excl; all cells probed after every step",
        "Histories over fetch / fetch_mut / try_* / by-id / system_data shapes / stepped meta-table iteration / Fetch::clone and clone_from / drops / unwinding through guards / fetches from destructors while unwinding; predicted guard / None / panic for every step; plus 2..8 real threads on one world (typed and by-id calls, hammer cases) with shadow counters inside every guard's life and a stamped log that decides afterwards whether each panic had a conflicting guard.",
        "Single-thread histories are decided against the reference machine; the concurrent sub-check (2..8 threads) uses shadow windows and can only observe aliasing that happens on the schedules the OS produces; cell state observed through try_fetch_internal.", "DESIGN.md 4/C08"),
    "C09": ("model-based property testing: generated map histories with matching and mismatching type arguments against a reference BTreeMap, with a drop tracker and an injected panicking destructor",
        "Histories over 26 operations on 8 value types (zero-sized, 1 byte, 8 bytes, plain data without drop glue, heap-owning, 512 bytes, 5000 bytes, 256-byte aligned) x 5 dynamic ids (0, 2^32, 2^32-1, u64::MAX, u64::MAX-1), incl. a panicking destructor at the replace point, forgotten guards, and exec / setup with a hand-written SystemData that logs its calls; every result, the stored TypeId, identity, payload pattern and the set of live values are compared after every step.",
        "Trusts the harness's drop tracker; a crash of the process while a journalled case runs is reported as a violation with that case.", "DESIGN.md 4/C09"),
    "C10": (PBT + "; oracle = the statement's validity predicate over the executed layout",
        "Generated-input search over registration sequences; the oracle is the statement's own validity predicate evaluated on the layout that is really executed. Found and fixed two defects (duplicate dependency names, dependencies in front of a barrier).",
        LAYOUT_NOTE, "DESIGN.md 4/C10"),
    "C11": (PBT + "; oracle: rendezvous of the first systems of all groups of a stage (retried time-out, three misses in a row)",
        "Generated stage widths 2..16, pool sizes >= width, groups with chained members, later single-group stages; user pool, default pool, inside a batch, async dispatcher; 3 dispatches each.",
        "A progress claim decided by a retried rendezvous: 'can overlap when the machine has idle threads'. Time is a signal here and only here.", "DESIGN.md 4/C11"),
    "C12": (PBT + "; history oracle on thread identity / order of thread-local windows; conversion oracle for try_into_sendable; async wait() clause",
        "Generated plans mixing really !Send thread-local systems with ordinary systems, barriers and batches; schedule-controlled dispatch; try_into_sendable Ok exactly without thread-locals and plan preserved; async: only inside wait(), once per wait.",
        LAYOUT_NOTE + " The compile-time half (Dispatcher is not Send) is outside generated-input search. Known finding KF1 matched by signature.", "DESIGN.md 4/C12"),
    "C13": (PBT + "; oracle: per-system setup / dispose counters, custom-handler call log, world contents before / after each setup",
        "Generated plans with nested batches, thread-locals and 13 static SystemData shapes x pre-existing resource subsets x setup/insert/remove histories, then dispose. Found and fixed one defect (dispose not forwarded into batches).",
        "Controllers have no setup hook of their own: their declared data is observed through created resources and the custom handler log.", "DESIGN.md 4/C13"),
    "C14": ("fault enumeration over generated small plans: every system x fault point {before fetch, in run, after release} x {parallel, sequential} x sibling phase forced by the harness-owned schedule; pairs of one stage; panics caught by a batch controller around its inner dispatch",
        "Per generated plan (five classes: general, pairs, dependents packed into one group, wide stages on pools smaller and larger than the stage, nested batches with MultiDispatcher / custom controllers and thread-local systems inside, faults also in later inner dispatches) the fault space is enumerated completely; oracle: payload of an armed system reaches the caller, no counter above its bound, no transitive dependent ran, all cells free, the next two dispatches run everything exactly once.",
        "The async dispatcher is excluded (a panicking spawned job aborts the process by rayon's default handler).", "DESIGN.md 4/C14"),
    "C15": ("model-based property testing: generated call histories on the async dispatcher with systems held inside run / pool workers occupied by the harness; oracles on counters at every return, on running(), and on the event history",
        "Generated plans x histories over dispatch / running / wait / wait_without_tl / world / world_mut / setup x pool sizes; a held system is released after k polls or from a helper thread while the caller blocks.",
        "Holding a system only creates the opportunity for a bug to show; bounded holds (<= 30 ms) are not a verdict.", "DESIGN.md 4/C15"),
    "C16": (PBT + " over generated trees of the real Par / Seq node types (boxing adapter); oracle: exactly-once, seq order from the event history, union of declarations, setup counters; planted-conflict rejection trees",
        "Trees of depth <= 5, fan-out <= 6, pools 1..16, dispatch from outside and inside the pool, inherent API and RunNow impl; runnable trees and trees with exactly one planted conflict (Par::with must panic exactly there); plus statically typed trees of zero-sized systems written with the real par!/seq! macros.",
        "'May overlap' is a permission and is not asserted. Debug assertions are on in the harness profile.", "DESIGN.md 4/C16"),
    "C17": ("model-based property testing: generated register / insert / remove / get / iterate histories over 8 hand-written implementing types (incl. two with a wrong CastFrom) and 64 const-generic ones (tables beyond 32 and 64 types) against a reference list in first-registration order",
        "20 implementing types (incl. zero-sized, over-aligned, two with a wrong CastFrom of which one is zero-sized); every type's methods read its own payload so a wrong vtable shows as a wrong tag (or a crash that the journal attributes); iteration through for / nth / skip / step_by, also while foreign guards are held; tables with more than 16 distinct registrations; one table and world shared read-only by 2..8 threads that repeat generated lookup scripts (every result has the sequential oracle).",
        "A process crash while a journalled case runs is reported as a violation with that case.", "DESIGN.md 4/C17"),
    "C18": (PBT + "; generated ill-formed call planted at a generated position; oracle = panic exactly there, quoting the name, nowhere else",
        "Generated registration sequences up to 400 calls, funnel class, nested builders; every call under catch_unwind.",
        "Nothing is claimed about a builder after it panicked; explores a finite sample.", "DESIGN.md 4/C18"),
    "C19": (PBT + "; metamorphic relation: renaming / relabelling / list permutation leave the executed layout unchanged",
        "Metamorphic generated-input search: P, P built twice, and transformed P' must give identical canonical layouts.",
        LAYOUT_NOTE + " c19-processes compares with a second process and with the harness built without the `parallel` feature.", "DESIGN.md 4/C19"),
    "C20": (PBT + "; oracle = printed text parses and equals the executed layout position by position",
        "Generated-input search over builders with unnamed systems, arbitrary names over letters and the sanitised characters, batches, empty builders. Found and fixed one defect (unnamed systems made Debug panic).",
        LAYOUT_NOTE + " print_par_seq is called for about one plan in 64 with stdout pointed at /dev/null; c20-nopar compares the printed texts with a second process and with the build without the `parallel` feature.", "DESIGN.md 4/C20"),
}

NOT_YET = "check not built yet in this session (planned, see DESIGN.md section 4)"

def main():
    props = [json.loads(l)["id"] for l in open(os.path.join(HERE, "properties.jsonl"))]
    try:
        commits = subprocess.check_output(
            ["git", "-C", "/repo", "log", "--format=%h %s"], text=True).splitlines()
    except Exception:
        commits = []
    hook_commits = [c.split()[0] for c in commits if "verif-hooks" in c]
    checks = []
    for pid in props:
        if pid not in CLAIMED:
            continue
        tech, text, note, ref = CLAIMED[pid]
        checks.append({
            "property_id": pid,
            "quick_cmd": f"./check {pid} quick",
            "thorough_cmd": f"./check {pid} thorough",
            "evidence_file": f"/verif/evidence/{pid}.json",
            "replay_cmd_template": "./check replay {path}",
            "engine": "vcheck",
            "level_claimed": {
                "category": "fault_enumeration" if pid == "C14" else "exploration",
                "text": text,
                "design_ref": ref,
            },
            "level_note": note,
            "technique": tech,
        })
    manifest = {
        "version": 1,
        "setup_cmd": "./setup.sh",
        "hooks": {
            "guard": "cargo feature verif-hooks (of the shred crate)",
            "enable": "the harness crates depend on shred by path (/repo) with features = [\"verif-hooks\"]; cargo rebuilds shred from /repo's working tree on every ./check",
            "baseline_off_cmd": "cd /repo && (cargo nextest run --workspace --no-fail-fast --tool-config-file pb:/w/lib/nextest.toml --profile pb --test-threads 8 --offline || cargo test --workspace --no-fail-fast --offline)",
            "source_commits": hook_commits,
            "add_only": True,
        },
        "engines": [
            {
                "name": "vcheck",
                "path": "/verif/harness",
                "serves_properties": sorted(CLAIMED.keys()),
                "kind_free_text": "Rust binary: proptest-generated choice streams decoded into registration sequences / histories / schedules, run against the real shred crate; explicit oracles; proptest + structural shrinking; JSON replay files",
            },
            {
                "name": "gen06",
                "path": "/verif/gen06",
                "serves_properties": ["C06"],
                "kind_free_text": "crate whose src/generated.rs is rewritten by vcheck per seed (generated SystemData types + expected access), compiled against /repo and run",
            }
        ],
        "checks": checks,
        "not_applicable": [
            {"property_id": pid, "reason": NOT_YET} for pid in props if pid not in CLAIMED
        ],
        "notes": "Exit codes of every command: 0 held, 1 VIOLATION line printed, 2 inconclusive (build failure, watchdog, harness error). KNOWN_FINDINGS.txt lists known and fixed defects.",
    }
    with open(os.path.join(HERE, "MANIFEST.json"), "w") as f:
        json.dump(manifest, f, indent=1)
        f.write("\n")

if __name__ == "__main__":
    main()
