#!/bin/bash
# tools/runall.sh [tier]  - every registered check once, with timings; validates evidence
cd "$(dirname "$0")/.."
TIER=${1:-quick}
fail=0
for id in C01 C02 C03 C04 C05 C06 C07 C08 C09 C10 C11 C12 C13 C14 C15 C16 C17 C18 C19 C20; do
  s=$(date +%s.%N)
  out=$(./check $id $TIER 2>&1); rc=$?
  e=$(date +%s.%N)
  printf "%s rc=%d %.1fs %s\n" $id $rc $(echo "$e - $s" | bc) "$(echo "$out" | grep -E "VIOLATION|INCONCLUSIVE" | head -1)"
  [ $rc -ne 0 ] && fail=1
done
python3-vt - <<'PY'
import json, jsonschema, glob
jsonschema.validate(json.load(open('MANIFEST.json')), json.load(open('/root/.vp/MANIFEST.schema.json')))
sch=json.load(open('/root/.vp/EVIDENCE.schema.json'))
for f in sorted(glob.glob('evidence/*.json')):
    try: jsonschema.validate(json.load(open(f)), sch)
    except Exception as e: print("EVIDENCE INVALID", f, str(e)[:200])
print("schemas checked")
PY
exit $fail
