#!/bin/bash
# tools/fuzz_tier.sh <ID>   coverage-guided campaign for one property (thorough tiers only)
# exit 0 nothing found (or fuzzing unavailable: noted in the evidence), 1 VIOLATION, 2 inconclusive
set -u
cd "$(dirname "$0")/.."
VERIF_DIR="$(pwd)"; export VERIF_DIR
ID="$1"; SEED="${VERIF_SEED:-0}"
# fixed work: 400000 inputs for the world / meta-table target, 100000 for the (much slower: every class of
# every sub-check, plans of up to 800 registrations) layout target; -max_total_time is only a safety net,
# reaching it means fewer inputs (recorded in the evidence), never a verdict
case "$ID" in C08|C09|C17) RUNS="${FUZZ_RUNS:-400000}";; *) RUNS="${FUZZ_RUNS:-100000}";; esac
case " C01 C02 C03 C04 C07 C08 C09 C10 C13 C17 C18 C19 C20 " in *" $ID "*) ;; *) exit 0;; esac
TD="${CARGO_TARGET_DIR:-$VERIF_DIR/target}"
note() { python3 - "$VERIF_DIR/evidence/$ID.json" "$1" <<'PY'
import json,sys
p,n=sys.argv[1:3]
try:
    e=json.load(open(p)); e.setdefault("assumptions",[]).append(n); json.dump(e,open(p,"w"),indent=1)
except Exception: pass
PY
}
( cd harness && CARGO_NET_OFFLINE=true cargo build --offline ) > "$TD/fuzz-build0.log" 2>&1
( cd harness && CARGO_NET_OFFLINE=true cargo +nightly fuzz build --fuzz-dir "$VERIF_DIR/fuzz" ) > "$TD/fuzz-build.log" 2>&1
if [ $? -ne 0 ]; then
  note "coverage-guided layer unavailable in this run (cargo +nightly fuzz build failed): thorough tier is proptest-only"
  echo "fuzz: build unavailable, skipped"; exit 0
fi
case "$ID" in C08|C09|C17) BIN="$TD/x86_64-unknown-linux-gnu/release/fz_world";; *) BIN="$TD/x86_64-unknown-linux-gnu/release/fz_layout";; esac
CORPUS="$TD/fuzz-corpus/$ID-seed$SEED"; ART="$TD/fuzz-art/$ID-seed$SEED-"
rm -rf "$CORPUS" "$TD/fuzz-art/$ID-seed$SEED-"*; mkdir -p "$CORPUS" "$TD/fuzz-art"
# empty corpus plus a few fixed-pattern inputs of full length (libFuzzer grows length slowly)
python3 - "$CORPUS" "$SEED" <<'PY'
import sys,os
d,seed=sys.argv[1],int(sys.argv[2])
x=(seed*2654435761+12345)&0xffffffff
for k in range(6):
    b=bytearray()
    for i in range(200+150*k):
        x=(x*1103515245+12345)&0x7fffffff
        b.append((x>>16)&0xff)
    open(os.path.join(d,"golden%d"%k),"wb").write(bytes(b))
PY
ASAN_OPTIONS=detect_leaks=0 VERIF_PROP="$ID" timeout 3600 "$BIN" -fork=8 -runs="$RUNS" -max_total_time=1500 -seed=$((SEED+1)) -len_control=0 -max_len=1200 -detect_leaks=0 \
   -artifact_prefix="$ART" "$CORPUS" > "$TD/fuzz-$ID.log" 2>&1
rc=$?
iters=$(grep -oE "fuzzed for [0-9]+ iterations" "$TD/fuzz-$ID.log" | grep -oE "[0-9]+" | tail -1)
last=$(grep -E "^#[0-9]+: cov:" "$TD/fuzz-$ID.log" | tail -1)
[ -z "$iters" ] && iters=$(echo "$last" | grep -oE "^#[0-9]+" | tr -d '#')
cov=$(echo "$last" | grep -oE "cov: [0-9]+" | grep -oE "[0-9]+"); corp=$(echo "$last" | grep -oE "corp: [0-9]+" | grep -oE "[0-9]+")
python3 - "$VERIF_DIR/evidence/$ID.json" "${iters:-0}" "${cov:-0}" "${corp:-0}" "$RUNS" <<'PY'
import json,sys
p,it,cov,corp,runs=sys.argv[1:6]
try:
    e=json.load(open(p))
    e["coverage"]["coverage_guided_fuzzing"]={"engine":"libFuzzer via cargo-fuzz, fork=8, AddressSanitizer, oracles inside the target","iterations":int(it),"edges_covered":int(cov),"corpus_inputs":int(corp),"requested_runs":int(runs)}
    json.dump(e,open(p,"w"),indent=1)
except Exception as ex: print("cannot update evidence:",ex)
PY
art=$(ls "$TD/fuzz-art/" 2>/dev/null | grep "^$ID-seed$SEED-" | head -1)
if [ -n "$art" ]; then
  mkdir -p replays
  "$TD/debug/vcheck" fuzz-artifact "$ID" "$TD/fuzz-art/$art" "$VERIF_DIR/replays/$ID-fuzz-seed$SEED.json"
  r=$?
  [ $r -eq 1 ] && exit 1
  echo "INCONCLUSIVE: the fuzzer stopped on $art but the input does not fail outside the fuzzer"; exit 2
fi
if [ $rc -ne 0 ]; then echo "INCONCLUSIVE: fuzzer ended with status $rc without an artifact"; exit 2; fi
echo "fuzz: $ID ${iters:-0} iterations, cov ${cov:-?}, corpus ${corp:-?}, nothing found"
exit 0
