#!/bin/bash
# tools/mutant.sh <file-under-/repo> <python-regex-or-literal old> <new> -- <check ids...>
# Applies a literal replacement to /repo (working tree only), runs the named quick checks, restores.
set -u
FILE="$1"; OLD="$2"; NEW="$3"; shift 4
cd /repo || exit 2
if ! git diff --quiet; then echo "refusing: /repo has uncommitted changes"; exit 2; fi
python3 - "$FILE" "$OLD" "$NEW" <<'PY'
import sys
f,old,new=sys.argv[1:4]
s=open(f).read()
if old not in s:
    print("MUTANT: pattern not found"); sys.exit(3)
s=s.replace(old,new,1)
open(f,'w').write(s)
PY
[ $? -eq 0 ] || { git checkout -- .; exit 3; }
echo "=== mutant: $FILE: '$OLD' -> '$NEW'"
if [ "${MUT_TESTS:-1}" = "1" ]; then
  cargo test --workspace --no-fail-fast --offline 2>&1 | grep -E "^test result|panicked|error(\[|:)" | awk '/test result/ {p+=$4; f+=$6} /error/ {e=1} END {print "  repo tests: passed",p,"failed",f, (e? "COMPILE ERROR":"")}'
fi
for id in "$@"; do
  out=$(cd /verif && timeout 900 ./check "$id" quick 2>&1); rc=$?
  echo "  $id -> exit $rc : $(echo "$out" | grep -E "VIOLATION|INCONCLUSIVE" | head -1) $(echo "$out" | grep -E "check=" | head -1 | cut -c1-220)"
done
git checkout -- .
