#!/bin/bash
# tools/seedtest.sh <worktree> <A|B|name> <PROP> [check ids...]
# 1. confirms in the scratch worktree: patch applies, crate builds, existing tests pass with it,
#    demo fails with it and passes without it
# 2. applies the patch to /repo (working tree only), runs the given quick checks, restores /repo
# 3. stores patch, demo and meta under /verif/seeded/<PROP>-<name>/
set -u
WT="$1"; NAME="$2"; PROP="$3"; shift 3
CHECKS="${*:-$PROP}"
SD="$WT/seeded/$NAME"
[ -f "$SD/patch.diff" ] || { echo "no $SD/patch.diff"; exit 2; }
export CARGO_NET_OFFLINE=true
cd "$WT" || exit 2
git checkout -q -- . ; rm -f tests/seeded_demo_*.rs
DEMO=tests/seeded_demo_x.rs
echo "== $PROP/$NAME: confirming in $WT"
git apply --check "$SD/patch.diff" || { echo "  patch does not apply"; exit 3; }
# demo on clean tree
cp "$SD/demo.rs" $DEMO
clean=$(cargo test --offline --test seeded_demo_x 2>&1 | grep -E "^test result" | tail -1)
echo "  demo on clean tree : $clean"
rm -f $DEMO
git apply "$SD/patch.diff"
suite=$(cargo test --workspace --no-fail-fast --offline 2>&1 | grep -E "^test result|error(\[|:)" | awk '/test result/ {p+=$4; f+=$6} /error/ {e=1} END {print "passed",p,"failed",f,(e?"COMPILE-ERROR":"")}')
echo "  existing suite with patch : $suite"
cp "$SD/demo.rs" $DEMO
mut=$(cargo test --offline --test seeded_demo_x 2>&1 | grep -E "^test result" | tail -1)
echo "  demo with patch    : $mut"
rm -f $DEMO
git checkout -q -- .
OUT=/verif/seeded/$PROP-${SEED_TAG:-}$NAME
mkdir -p "$OUT"
cp "$SD/patch.diff" "$OUT/patch.diff"; cp "$SD/demo.rs" "$OUT/demo.rs"; cp "$SD/meta.json" "$OUT/meta.json" 2>/dev/null
# run checks against /repo (or a private copy: SEEDTEST_REPO / SEEDTEST_VERIF, see bgreseed.sh)
RP=${SEEDTEST_REPO:-/repo}; VF=${SEEDTEST_VERIF:-/verif}
cd $RP || exit 2
if ! git diff --quiet; then echo "refusing: /repo has uncommitted changes"; exit 2; fi
git apply "$SD/patch.diff" || { echo "  patch does not apply to /repo"; exit 3; }
detected=""
for id in $CHECKS; do
  out=$(cd $VF && timeout 1200 ./check "$id" quick 2>&1); rc=$?
  line=$(echo "$out" | grep -E "check=" | head -1 | cut -c1-260)
  echo "  check $id -> exit $rc $line"
  [ $rc -eq 1 ] && detected="$detected $id:$(echo "$line" | sed -E 's/.*check=([^ ]+).*/\1/')"
done
git checkout -q -- .
python3 - "$SD/meta.json" "$OUT/meta.json" "$PROP" "$clean" "$suite" "$mut" "$detected" "$CHECKS" <<'PY'
import json,sys
src,dst,prop,clean,suite,mut,det,checks=sys.argv[1:9]
try: m=json.load(open(src))
except Exception: m={}
m["property"]=prop
m["confirmed_by_me"]={"demo_on_clean_tree":clean,"existing_suite_with_patch":suite,"demo_with_patch":mut}
m["checks_run"]=checks.split()
m["detected_by"]=det.split()
json.dump(m,open(dst,"w"),indent=1)
PY
echo "  stored in $OUT ; detected_by:${detected:- NONE}"
