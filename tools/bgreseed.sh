#!/bin/bash
# tools/bgreseed.sh <seed> [name...]
# Developer tool (not a registered command): re-runs the quick checks against every stored seeded
# change with VERIF_SEED=<seed>, in a PRIVATE copy of /verif and /repo under /tmp/bg, so that /repo and
# /verif stay free for other work. Prints one line per change; never touches seeded/*/meta.json.
set -u
SEED="$1"; shift
BG=${BG_DIR:-/tmp/bg}
if [ ! -d $BG/verif ] || [ "${BG_REFRESH:-0}" = "1" ]; then
  rm -rf $BG; mkdir -p $BG
  git clone -q /repo $BG/repo
  mkdir -p $BG/verif
  rsync -a --exclude target --exclude evidence --exclude replays --exclude .git /verif/ $BG/verif/
  sed -i "s#path = \"/repo\"#path = \"$BG/repo\"#" $BG/verif/harness/Cargo.toml $BG/verif/gen06/Cargo.toml
  sed -i "s#/verif/target#$BG/verif/target#" $BG/verif/harness/.cargo/config.toml $BG/verif/gen06/.cargo/config.toml
  sed -i "s#loc.starts_with(\"/repo/\")#loc.starts_with(\"$BG/repo/\")#" $BG/verif/harness/src/driver.rs
fi
cd $BG/verif
names="${*:-$(ls seeded)}"
for n in $names; do
  d=$BG/verif/seeded/$n
  [ -f "$d/patch.diff" ] || continue
  ( cd $BG/repo && git checkout -q -- . && git apply "$d/patch.diff" ) 2>/dev/null || { echo "$n: patch does not apply"; continue; }
  checks=$(python3 -c "import json;print(' '.join(json.load(open('$d/meta.json')).get('checks_run',[])))")
  det=""
  for id in $checks; do
    out=$(cd $BG/verif && VERIF_SEED=$SEED timeout 1200 ./check "$id" quick 2>&1); rc=$?
    if [ $rc -eq 1 ]; then det="$det $id:$(echo "$out" | grep -E "check=" | head -1 | sed -E 's/.*check=([^ ]+).*/\1/')"; fi
    [ $rc -eq 2 ] && det="$det $id:INCONCLUSIVE"
  done
  ( cd $BG/repo && git checkout -q -- . )
  echo "$n: seed $SEED detected_by:${det:- NONE}"
done
